#!/bin/bash
# usage: try_seed.sh <patch.diff> <ID>...   — applies a seeded change to /repo, runs the quick checks, always reverts.
set -u
patch=$1; shift
cd /verif
if [ -n "$(git -C /repo status --porcelain)" ]; then echo "/repo not clean"; exit 2; fi
git -C /repo apply "$patch" || { echo "patch does not apply"; exit 2; }
trap 'git -C /repo checkout -- . ; git -C /repo clean -fdq' EXIT
for id in "$@"; do
  out=$(./bin/vcheck run $id --tier ${TIER:-quick} 2>&1); rc=$?
  echo "== $id exit=$rc"
  echo "$out" | grep -E "^(VIOLATION|  kind=|  witness|KNOWN-FINDING|BUILD-FAILED|SETUP-FAILED|note:|C[0-9]+ tier)" | cut -c1-300
done
