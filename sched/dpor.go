package sched

import "fmt"

// DPOR is a stateless explorer with dynamic partial-order reduction (Flanagan & Godefroid 2005) and sleep
// sets. It runs at least one interleaving of every Mazurkiewicz trace of a closed program: two interleavings
// belong to one trace when they differ only in the order of adjacent INDEPENDENT operations (operations whose
// footprints do not conflict, hb.go). Deadlocks, the local states of every thread (hence what the injector
// returns, and what every provider receives) and everything stated in terms of happens-before are the same in
// all interleavings of a trace, so oracles of that form lose nothing. There is no state caching in this mode.
//
// All threads park BEFORE their next visible operation, so the next transition of every thread is known in every
// state; that makes the sleep sets exact and lets the race analysis run before the operation executes.
type DPOR struct {
	MaxExecs int
	// KeepLog keeps the event log of every execution (trace collection for the conformance pass).
	KeepLog bool
	Setup   func(w *World) func()
	// AtTerminal is called at the end of every complete execution (no thread enabled).
	AtTerminal func(w *World)
	// OnState is called for every newly visited state with its enabled alternatives.
	OnState func(w *World, alts []Alt)
	// AfterRun is called after every execution; complete=false for executions cut because every enabled
	// transition was asleep (their continuation is covered by another execution).
	AfterRun func(w *World, choices []int, complete bool)

	Execs        int
	Steps        int // frames created = transitions executed outside replayed prefixes
	Alts         int // enabled alternatives summed over visited states
	SleepBlocked int
	MaxDepth     int
	Capped       bool

	frames []*dframe
	cur    *dporRun
}

type tkey struct{ T, Alt int }

type dalt struct {
	T, Alt int
	Kind   OpKind
	Foot   []Acc
}

type dframe struct {
	alts      []dalt
	pendSeq   map[int]int  // thread -> number of events it had executed (identifies its pending operation)
	enabledT  map[int]bool // threads with at least one enabled alternative
	backtrack map[int]bool
	done      map[tkey][]Acc // transitions whose subtree is (being) explored, with footprints
	sleep     map[tkey][]Acc // transitions asleep on entry
	chosen    int
}

type dporRun struct {
	e         *DPOR
	replay    int // number of leading frames whose choice is fixed
	choices   []int
	nextSleep map[tkey][]Acc
	complete  bool
	blocked   bool
}

// neverCoEnabled lists pairs of operation kinds on one object that cannot be enabled in the same state, so
// their order cannot be reversed: a Wait needs the counter at zero while a Done needs it positive; a receive
// from an unbuffered channel needs it closed; Once.Do of another thread is disabled until the running one ends;
// Lock needs the mutex free while Unlock is issued by its holder.
func neverCoEnabled(a OpKind, af []Acc, b OpKind, bf []Acc) bool {
	p := func(x, y OpKind) bool { return (a == x && b == y) || (a == y && b == x) }
	if p(OpRecv, OpClose) {
		// only for unbuffered channels (a receive from a buffered channel is a write of its shadow)
		rf := af
		if b == OpRecv {
			rf = bf
		}
		return len(rf) == 1 && rf[0].Mode == AccR
	}
	return p(OpWGWait, OpWGDone) || p(OpOnce, OpOnceEnd) || p(OpLock, OpUnlock)
}

func (r *dporRun) Choose(w *World, alts []Alt) int {
	e := r.e
	d := len(r.choices)
	e.analyse(w)
	var f *dframe
	if d < r.replay {
		f = e.frames[d]
		if len(f.alts) != len(alts) {
			panic(fmt.Sprintf("sched/dpor: replay divergence at depth %d: %d alternatives, expected %d", d, len(alts), len(f.alts)))
		}
		for i, a := range alts {
			if f.alts[i].T != a.T.ID || f.alts[i].Alt != a.Alt {
				panic(fmt.Sprintf("sched/dpor: replay divergence at depth %d: alternative %d is T%d/%d, expected T%d/%d", d, i, a.T.ID, a.Alt, f.alts[i].T, f.alts[i].Alt))
			}
		}
	} else {
		f = &dframe{pendSeq: map[int]int{}, enabledT: map[int]bool{}, backtrack: map[int]bool{}, done: map[tkey][]Acc{}, sleep: r.nextSleep, chosen: -1}
		if f.sleep == nil {
			f.sleep = map[tkey][]Acc{}
		}
		for _, t := range w.Threads {
			if !t.done {
				f.pendSeq[t.ID] = t.nev
			}
		}
		for _, a := range alts {
			f.alts = append(f.alts, dalt{T: a.T.ID, Alt: a.Alt, Kind: a.T.pending.Kind, Foot: w.Footprint(a.T.pending, a.Alt)})
			f.enabledT[a.T.ID] = true
		}
		if e.OnState != nil {
			e.OnState(w, alts)
		}
		e.Alts += len(alts)
		if len(alts) == 0 {
			r.complete = true
			return -1
		}
		// first thread (canonical order: the running thread first) with a transition that is not asleep
		for i, a := range f.alts {
			if _, asleep := f.sleep[tkey{a.T, a.Alt}]; !asleep {
				f.chosen = i
				f.backtrack[a.T] = true
				break
			}
		}
		if f.chosen < 0 {
			r.blocked = true
			return -1
		}
		e.frames = append(e.frames, f)
		e.Steps++
	}
	c := f.alts[f.chosen]
	f.done[tkey{c.T, c.Alt}] = c.Foot
	// sleep set of the successor: what slept or was explored here and is independent of c
	ns := map[tkey][]Acc{}
	for k, foot := range f.sleep {
		if k.T != c.T && !Dependent(foot, c.Foot) {
			ns[k] = foot
		}
	}
	for k, foot := range f.done {
		if k.T != c.T && !Dependent(foot, c.Foot) {
			ns[k] = foot
		}
	}
	r.nextSleep = ns
	r.choices = append(r.choices, f.chosen)
	return f.chosen
}

// analyse adds the backtrack points demanded by the next operations of all threads in the current state.
func (e *DPOR) analyse(w *World) {
	// race analysis (for the next operation of EVERY thread, enabled or not - a disabled operation such as a
	// cancellation that is only possible before the injector returned must still be tried before the operation
	// that disabled it): the latest earlier operation of another thread that conflicts with it, is not ordered
	// before the thread by happens-before, and could have been co-enabled with it
	for _, pt := range w.Threads {
		if pt.done || pt.pending == nil {
			continue
		}
		foot := w.Footprint(pt.pending, 0)
		if len(foot) == 0 {
			continue
		}
		kind := pt.pending.Kind
		for j := len(w.Trace) - 1; j >= 0; j-- {
			s := w.Trace[j]
			if s.Thread == pt.ID || !Dependent(s.Foot, foot) || pt.vc.get(s.Thread) >= s.Seq {
				continue
			}
			if neverCoEnabled(s.Kind, s.Foot, kind, foot) {
				continue
			}
			fj := e.frames[j]
			if seq, ok := fj.pendSeq[pt.ID]; ok && seq == pt.nev && !fj.enabledT[pt.ID] {
				continue // the very same operation was pending and disabled there: it cannot move before s
			}
			if fj.enabledT[pt.ID] {
				fj.backtrack[pt.ID] = true
			} else {
				for q := range fj.enabledT {
					fj.backtrack[q] = true
				}
			}
			break
		}
	}
}

// Explore runs the search to completion (or to MaxExecs).
func (e *DPOR) Explore() {
	e.frames = nil
	replay := 0
	for {
		if e.MaxExecs > 0 && e.Execs >= e.MaxExecs {
			e.Capped = true
			return
		}
		w := NewWorld()
		w.KeepLog = e.KeepLog
		body := e.Setup(w)
		r := &dporRun{e: e, replay: replay}
		e.cur = r
		w.Run(body, r)
		e.Execs++
		if len(r.choices) > e.MaxDepth {
			e.MaxDepth = len(r.choices)
		}
		if r.blocked {
			e.SleepBlocked++
		}
		if r.complete && e.AtTerminal != nil {
			e.AtTerminal(w)
		}
		if e.AfterRun != nil {
			e.AfterRun(w, r.choices, r.complete)
		}
		// backtrack: deepest frame with an unexplored transition of a thread in its backtrack set
		next := -1
		for d := len(e.frames) - 1; d >= 0 && next < 0; d-- {
			f := e.frames[d]
			for i, a := range f.alts {
				k := tkey{a.T, a.Alt}
				if !f.backtrack[a.T] {
					continue
				}
				if _, ok := f.done[k]; ok {
					continue
				}
				if _, ok := f.sleep[k]; ok {
					continue
				}
				f.chosen = i
				next = d
				break
			}
		}
		if next < 0 {
			return
		}
		e.frames = e.frames[:next+1]
		replay = next + 1
	}
}

// CurrentChoices returns the choices made so far in the execution in progress.
func (e *DPOR) CurrentChoices() []int {
	if e.cur == nil {
		return nil
	}
	return e.cur.choices
}
