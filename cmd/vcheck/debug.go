package main

import (
	"fmt"
	"os"
	"sort"
	"time"

	"verif/internal/pipe"
)

func cmdCorpus(args []string) {
	tier := "quick"
	if len(args) > 0 {
		tier = args[0]
	}
	t0 := time.Now()
	e := pipe.Setup()
	fmt.Println("tree", e.Hash, "cli built in", time.Since(t0))
	t0 = time.Now()
	c := e.BuildCorpus(tier)
	fmt.Println("corpus", len(c.Items), "in", time.Since(t0))
	genFail, noBand, instr, build, runnable := 0, 0, 0, 0, 0
	kinds := map[string]int{}
	ex := map[string]string{}
	for _, it := range c.Items {
		switch {
		case it.GenExit != 0:
			genFail++
			kinds["gen: "+firstLine(it.GenErr)]++
			ex["gen: "+firstLine(it.GenErr)] = it.Pkg + " " + it.Spec
		case !it.HasBand:
			noBand++
		case it.InstrErr != "":
			instr++
			kinds["instr: "+it.InstrErr]++
		case it.BuildErr != "":
			build++
			k := "build: " + normErr(it.BuildErr)
			kinds[k]++
			ex[k] = it.Pkg + " " + it.Spec
		default:
			runnable++
		}
	}
	fmt.Printf("genFail=%d noBand=%d instrErr=%d buildErr=%d runnable=%d\n", genFail, noBand, instr, build, runnable)
	var ks []string
	for k := range kinds {
		ks = append(ks, k)
	}
	sort.Strings(ks)
	for _, k := range ks {
		fmt.Printf("%5d %s\n      e.g. %s\n", kinds[k], k, ex[k])
	}
	if s := pipe.RepoStatus(); s != "" {
		fmt.Println("REPO DIRTY:", s)
	}
}

func firstLine(s string) string {
	for i, c := range s {
		if c == '\n' {
			return s[:i]
		}
	}
	return s
}

func cmdExplore(args []string) {
	tier, fams := args[0], args[1]
	e := pipe.Setup()
	c := e.BuildCorpus(tier)
	t0 := time.Now()
	res, err := c.Explore(fams, tier == "thorough", 200000)
	if err != nil {
		fmt.Println("ERR", err)
		os.Exit(2)
	}
	fmt.Println("results", len(res), "in", time.Since(t0))
	states, trans, execs, capped := 0, 0, 0, 0
	kinds := map[string]int{}
	ex := map[string]string{}
	porExecs, porStates, diffs := 0, 0, 0
	for _, r := range res {
		porExecs += r.PORExecs
		porStates += r.PORStates
		if r.PORDiff != "" {
			diffs++
			if diffs <= 12 {
				fmt.Printf("POR-DISAGREEMENT %s %s [%s]\n   %s\n", r.Pkg, c.ByPkg[r.Pkg].Spec, r.Scenario, r.PORDiff)
			}
		}
		states += r.States
		trans += r.Transitions
		execs += r.Execs
		if r.Capped {
			capped++
		}
		for _, o := range r.Obs {
			k := r.Scenario[:min(len(r.Scenario), 6)] + " " + o.Kind + " @" + o.Site
			kinds[k]++
			if _, ok := ex[k]; !ok {
				ex[k] = r.Pkg + " " + c.ByPkg[r.Pkg].Spec + "\n        " + o.Detail + " " + o.Blocked
			}
		}
	}
	fmt.Printf("states=%d transitions=%d execs=%d capped=%d\n", states, trans, execs, capped)
	if os.Getenv("VERIF_POR") == "both" {
		fmt.Printf("partial-order reduction: execs=%d states=%d disagreements=%d\n", porExecs, porStates, diffs)
	}
	var ks []string
	for k := range kinds {
		ks = append(ks, k)
	}
	sort.Strings(ks)
	for _, k := range ks {
		fmt.Printf("%5d %s\n      e.g. %s\n", kinds[k], k, ex[k])
	}
}

func normErr(s string) string {
	l := firstLine(s)
	// strip file position
	for i := 0; i+1 < len(l); i++ {
		if l[i] == ':' && l[i+1] == ' ' {
			return l[i+2:]
		}
	}
	return l
}
