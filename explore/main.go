package explore

import (
	"bufio"
	"encoding/json"
	"flag"
	"fmt"
	"os"
	"sort"
	"strings"

	"verif/rt"
)

// subsets enumerates the non-empty subsets of ids with at most maxSize elements (0 = all sizes).
func subsets(ids []string, maxSize int) [][]string {
	var out [][]string
	n := len(ids)
	for m := 1; m < 1<<n; m++ {
		var s []string
		for i := 0; i < n; i++ {
			if m&(1<<i) != 0 {
				s = append(s, ids[i])
			}
		}
		if maxSize > 0 && len(s) > maxSize {
			continue
		}
		out = append(out, s)
	}
	sort.Slice(out, func(i, j int) bool {
		if len(out[i]) != len(out[j]) {
			return len(out[i]) < len(out[j])
		}
		return strings.Join(out[i], ",") < strings.Join(out[j], ",")
	})
	return out
}

// Scenarios lists the scenarios of one case for the requested families.
func Scenarios(info *CaseInfo, families []string, thorough bool) []Scenario {
	var fallible []string
	for _, p := range info.Provs {
		if p.Needed && p.Fallible {
			fallible = append(fallible, p.ID)
		}
	}
	var out []Scenario
	for _, f := range families {
		switch f {
		case "free":
			out = append(out, Scenario{Name: "free"})
		case "fault":
			max := 2
			if thorough {
				max = 0
			}
			if info.POR {
				// large shapes: every single failing provider (pairs over up to 14 fallible providers of 14-thread
				// injectors cost hours in the thorough tier and add little: the small shapes take every subset)
				max = 1
			}
			for _, s := range subsets(fallible, max) {
				out = append(out, Scenario{Name: "fault:" + strings.Join(s, ","), Fail: s})
			}
		case "cancel":
			if info.HasCtx {
				out = append(out, Scenario{Name: "cancel", Cancel: true})
			}
		case "cancel+fault":
			if info.HasCtx && !info.POR {
				for _, s := range subsets(fallible, 1) {
					out = append(out, Scenario{Name: "cancel+fault:" + strings.Join(s, ","), Fail: s, Cancel: true})
				}
			}
		}
	}
	return out
}

// Main is the entry point of the generated runner binary.
func Main() {
	casesFile := flag.String("cases", "", "cases.json")
	fams := flag.String("scenarios", "free", "comma separated scenario families: free,fault,cancel,cancel+fault")
	shard := flag.Int("shard", 0, "shard index")
	shards := flag.Int("shards", 1, "number of shards")
	max := flag.Int("max", 200000, "execution cap per case and scenario")
	thorough := flag.Bool("thorough", false, "thorough tier (all fault subsets)")
	only := flag.String("only", "", "run only this package id")
	por := flag.String("por", "off", "off: state-caching search over all interleavings; on: dynamic partial-order reduction; both: run both and report disagreements")
	traces := flag.String("traces", "", "comma separated package ids: enumerate all (projection, outcome) pairs without pruning instead of exploring")
	out := flag.String("out", "", "output file (JSON lines)")
	flag.Parse()

	var infos map[string]*CaseInfo
	b, err := os.ReadFile(*casesFile)
	if err != nil {
		fmt.Fprintln(os.Stderr, err)
		os.Exit(2)
	}
	if err := json.Unmarshal(b, &infos); err != nil {
		fmt.Fprintln(os.Stderr, err)
		os.Exit(2)
	}
	f := os.Stdout
	if *out != "" {
		f, err = os.Create(*out)
		if err != nil {
			fmt.Fprintln(os.Stderr, err)
			os.Exit(2)
		}
		defer f.Close()
	}
	w := bufio.NewWriter(f)
	defer w.Flush()
	enc := json.NewEncoder(w)
	cases := rt.Cases
	sort.Slice(cases, func(i, j int) bool { return cases[i].Pkg < cases[j].Pkg })
	if *traces != "" {
		want := map[string]bool{}
		for _, p := range strings.Split(*traces, ",") {
			want[p] = true
		}
		n := 0
		for _, c := range cases {
			if !want[c.Pkg] || infos[c.Pkg] == nil || c.Unsupported != "" {
				continue
			}
			n++
			if (n-1)%*shards != *shard {
				continue
			}
			for _, sc := range Scenarios(infos[c.Pkg], strings.Split(*fams, ","), *thorough) {
				_ = enc.Encode(CollectTraces(c, infos[c.Pkg], sc, *max))
			}
		}
		return
	}
	for i, c := range cases {
		if *only != "" && c.Pkg != *only {
			continue
		}
		if *only == "" && i%*shards != *shard {
			continue
		}
		info := infos[c.Pkg]
		if info == nil {
			continue
		}
		if c.Unsupported != "" {
			_ = enc.Encode(&Result{Pkg: c.Pkg, Scenario: "none", Unsupported: c.Unsupported})
			continue
		}
		for _, sc := range Scenarios(info, strings.Split(*fams, ","), *thorough) {
			mode := *por
			if info.POR && mode == "off" {
				mode = "on" // large shapes: the interleaving space is only tractable per Mazurkiewicz trace
			}
			if info.POR && mode == "both" {
				mode = "on"
			}
			switch mode {
			case "on":
				_ = enc.Encode(RunCasePOR(c, info, sc, *max))
			case "both":
				full := RunCase(c, info, sc, *max)
				red := RunCasePOR(c, info, sc, *max)
				full.PORDiff = Disagreement(full, red)
				full.PORExecs, full.PORStates = red.Execs, red.States
				_ = enc.Encode(full)
			default:
				_ = enc.Encode(RunCase(c, info, sc, *max))
			}
		}
	}
}
