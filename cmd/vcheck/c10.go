package main

import (
	"fmt"
	"go/ast"
	"go/parser"
	"go/printer"
	"go/token"
	"os"
	"sort"
	"strings"

	"verif/internal/decl"
	"verif/internal/pipe"
	"verif/internal/rewrite"
)

// parseFuncs returns the top-level functions of a generated file with their signatures.
func parseFuncs(path string) ([]rewrite.FuncInfo, map[string]string, error) {
	fset := token.NewFileSet()
	f, err := parser.ParseFile(fset, path, nil, 0)
	if err != nil {
		return nil, nil, err
	}
	imports := map[string]string{}
	for _, is := range f.Imports {
		p := strings.Trim(is.Path.Value, `"`)
		n := ""
		if is.Name != nil {
			n = is.Name.Name
		}
		imports[p] = n
	}
	var out []rewrite.FuncInfo
	for _, d := range f.Decls {
		fd, ok := d.(*ast.FuncDecl)
		if !ok {
			continue
		}
		fi := rewrite.FuncInfo{Name: fd.Name.Name}
		if fd.Recv != nil {
			fi.Name = "(method)" + fi.Name
		}
		str := func(e ast.Expr) string { return exprStr(fset, e) }
		if fd.Type.Params != nil {
			for _, fl := range fd.Type.Params.List {
				n := len(fl.Names)
				if n == 0 {
					n = 1
				}
				for i := 0; i < n; i++ {
					nm := ""
					if i < len(fl.Names) {
						nm = fl.Names[i].Name
					}
					fi.Params = append(fi.Params, rewrite.Param{Name: nm, Type: str(fl.Type)})
				}
			}
		}
		if fd.Type.Results != nil {
			for _, fl := range fd.Type.Results.List {
				n := len(fl.Names)
				if n == 0 {
					n = 1
				}
				for i := 0; i < n; i++ {
					fi.Results = append(fi.Results, rewrite.Param{Type: str(fl.Type)})
				}
			}
		}
		out = append(out, fi)
	}
	return out, imports, nil
}

func exprStr(fset *token.FileSet, e ast.Expr) string {
	var b strings.Builder
	_ = printer.Fprint(&b, fset, e)
	return b.String()
}

func sigString(f rewrite.FuncInfo) string {
	var ps, rs []string
	for _, p := range f.Params {
		ps = append(ps, p.Type)
	}
	for _, r := range f.Results {
		rs = append(rs, r.Type)
	}
	return f.Name + "(" + strings.Join(ps, ", ") + ") (" + strings.Join(rs, ", ") + ")"
}

func refSig(d *decl.Decl, r *decl.Ref) string {
	ps := append([]string(nil), r.Params...)
	sort.Strings(ps)
	s := d.Name + "("
	if r.HasCtx {
		if r.CtxFirst {
			s += "ctx-first; "
		} else {
			s += "ctx; "
		}
	}
	s += strings.Join(ps, ", ") + ") (" + d.Target
	if r.HasErr {
		s += ", error"
	}
	return s + ")"
}

func runC10(args []string) {
	tier := parseTier(args)
	rc := newRunCtx("C10", tier)
	rc.Level = "exploration"
	env := pipe.Setup()
	corpus := env.BuildCorpus(tier)
	evals := 0
	distinct := map[string]bool{}
	classes := map[string]bool{}
	var samples []map[string]string
	for _, it := range corpus.Items {
		if it.Ref.Refuse != "" || it.GenExit != 0 || !it.HasBand {
			continue // C09's business
		}
		funcs, imports, err := parseFuncs(corpus.BandPath(it))
		if err != nil {
			rc.Add(Finding{Kind: "unparsable-output", Detail: err.Error(), Witness: it.Spec})
			continue
		}
		var fn *rewrite.FuncInfo
		for i := range funcs {
			if funcs[i].Name == it.Decl.Name {
				fn = &funcs[i]
			}
		}
		evals++
		if fn == nil {
			rc.Add(Finding{Kind: "missing-function", Detail: "no function named " + it.Decl.Name + " in the generated file", Witness: it.Spec, Replay: map[string]any{"decl": it.Decl, "generated": readFile(corpus.BandPath(it))}})
			continue
		}
		ctxAlias, hasCtxImport := imports["context"]
		if ctxAlias == "" {
			ctxAlias = "context"
		}
		ctxType := ctxAlias + ".Context"
		var params []string
		ctxIdx := -1
		nctx := 0
		for i, p := range fn.Params {
			if hasCtxImport && p.Type == ctxType {
				nctx++
				if ctxIdx < 0 {
					ctxIdx = i
				}
				continue
			}
			params = append(params, p.Type)
		}
		ref := it.Ref
		bad := func(kind, detail string) {
			rc.Add(Finding{Kind: kind, Detail: detail + "; generated " + sigString(*fn) + "; declaration implies " + refSig(it.Decl, ref), Witness: it.Spec,
				Replay: map[string]any{"decl": it.Decl, "generated": readFile(corpus.BandPath(it))}})
		}
		want := make([]string, 0, len(ref.Params))
		for _, p := range ref.Params {
			want = append(want, decl.GoType(p))
		}
		a, b := append([]string(nil), params...), append([]string(nil), want...)
		sort.Strings(a)
		sort.Strings(b)
		if strings.Join(a, ",") != strings.Join(b, ",") {
			bad("wrong-parameters", "parameters are not exactly the unsupplied required types, each once")
		}
		switch {
		case ref.HasCtx && nctx != 1:
			bad("context-parameter-missing", fmt.Sprintf("context.Context must be a parameter exactly once, found %d", nctx))
		case !ref.HasCtx && nctx != 0:
			bad("context-parameter-unexpected", "context.Context is a parameter although no needed provider is Async or requires it")
		case ref.CtxFirst && ctxIdx != 0:
			bad("context-not-first", fmt.Sprintf("context.Context must be the first parameter when a needed provider is Async, found at position %d", ctxIdx))
		}
		wantRes := []string{decl.GoType(it.Decl.Target)}
		if ref.HasErr {
			wantRes = append(wantRes, "error")
		}
		var got []string
		for _, r := range fn.Results {
			got = append(got, r.Type)
		}
		if strings.Join(got, ",") != strings.Join(wantRes, ",") {
			bad("wrong-results", "results must be ("+strings.Join(wantRes, ", ")+")")
		}
		sig := sigString(*fn)
		classes[refSig(it.Decl, ref)] = true
		if len(fn.Params) > 0 || len(fn.Results) > 1 {
			distinct[it.Spec] = true
		}
		if len(samples) < 4 && (len(fn.Params) > 1 || evals%997 == int(rc.Seed%997)) {
			samples = append(samples, map[string]string{"declaration": it.Spec, "generated_signature": sig, "implied": refSig(it.Decl, ref)})
		}
	}
	if len(samples) == 0 {
		samples = append(samples, map[string]string{"declaration": "(none)"})
	}
	rc.Coverage = map[string]any{
		"evaluations":         evals,
		"distinct_nontrivial": len(distinct),
		"rule":                "every declaration of the universe (DESIGN §2.1, tier " + tier + ") accepted by the real CLI; the generated function's signature is parsed from the emitted file and compared with the reference interpreter's: name, parameter multiset (each unsupplied required type once), context.Context present iff needed Async or unsupplied, first iff needed Async, results (T[, error]); distinct = distinct declarations whose injector has a parameter or an error result",
		"samples":             samples,
		"exhaustive":          true,
		"distinct_implied_signature_classes": len(classes),
		"declarations_in_universe":           len(corpus.Items),
		"tree_hash":                          env.Hash,
	}
	rc.Assume = []string{"types in the universe are package-local named types, pointers to them, interfaces and context.Context: spelling equality is type identity once the package compiles (checked by C04)", "bounded declaration universe"}
	_ = os.Stdout.Sync()
	rc.Finish()
}
