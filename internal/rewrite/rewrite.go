// Package rewrite instruments a generated *_band.go file: every synchronisation operation is routed
// through verif/sched, every access to a variable shared between the injector's threads is
// announced, every return is labelled. The rewrite is syntax-directed and strict: anything outside
// its vocabulary is refused (ErrUnsupported), never guessed.
package rewrite

import (
	"bytes"
	"fmt"
	"go/ast"
	"go/format"
	"go/parser"
	"go/token"
	"sort"
	"strconv"
	"strings"
)

type ErrUnsupported struct{ What string }

func (e *ErrUnsupported) Error() string { return "UNSUPPORTED-CONSTRUCT: " + e.What }

// Param describes one parameter or result of a generated function.
type Param struct {
	Name string
	Type string // source spelling
}

// FuncInfo describes one generated top-level function.
type FuncInfo struct {
	Name       string
	Params     []Param
	Results    []Param
	Goroutines int      // number of eg.Go / go statements
	Shared     []string // variables announced to the race detector
	Sites      []string // return-site labels present
}

type Result struct {
	Src     []byte
	Funcs   []FuncInfo
	Imports map[string]string // path -> local name
}

const schedAlias = "vsched__"

type rw struct {
	fset     *token.FileSet
	file     *ast.File
	shared   map[*ast.Object]string
	inLit    int
	info     *FuncInfo
	errgroup string // import path to substitute for golang.org/x/sync/errgroup
	err      error
}

func (r *rw) fail(format string, a ...any) {
	if r.err == nil {
		r.err = &ErrUnsupported{fmt.Sprintf(format, a...)}
	}
}

func exprString(fset *token.FileSet, e ast.Node) string {
	var b bytes.Buffer
	_ = format.Node(&b, fset, e)
	return b.String()
}

func sel(x, s string) ast.Expr { return &ast.SelectorExpr{X: ast.NewIdent(x), Sel: ast.NewIdent(s)} }

func call(fn ast.Expr, args ...ast.Expr) *ast.CallExpr { return &ast.CallExpr{Fun: fn, Args: args} }

func strLit(s string) ast.Expr { return &ast.BasicLit{Kind: token.STRING, Value: strconv.Quote(s)} }

func strSlice(ss []string) ast.Expr {
	if len(ss) == 0 {
		return ast.NewIdent("nil")
	}
	cl := &ast.CompositeLit{Type: &ast.ArrayType{Elt: ast.NewIdent("string")}}
	for _, s := range ss {
		cl.Elts = append(cl.Elts, strLit(s))
	}
	return cl
}

// File instruments src. errgroupPath replaces the errgroup import.
func File(filename string, src []byte, errgroupPath string) (*Result, error) {
	fset := token.NewFileSet()
	f, err := parser.ParseFile(fset, filename, src, parser.ParseComments)
	if err != nil {
		return nil, err
	}
	res := &Result{Imports: map[string]string{}}
	r := &rw{fset: fset, file: f, errgroup: errgroupPath}
	for _, is := range f.Imports {
		p, _ := strconv.Unquote(is.Path.Value)
		name := ""
		if is.Name != nil {
			name = is.Name.Name
		}
		res.Imports[p] = name
		if p == "golang.org/x/sync/errgroup" {
			if is.Name == nil {
				is.Name = ast.NewIdent("errgroup")
			}
			is.Path.Value = strconv.Quote(errgroupPath)
		}
	}
	for _, d := range f.Decls {
		fd, ok := d.(*ast.FuncDecl)
		if !ok || fd.Body == nil {
			continue
		}
		if fd.Recv != nil {
			return nil, &ErrUnsupported{"method declaration " + fd.Name.Name}
		}
		info := FuncInfo{Name: fd.Name.Name}
		if fd.Type.Params != nil {
			for _, fl := range fd.Type.Params.List {
				ts := exprString(fset, fl.Type)
				if len(fl.Names) == 0 {
					info.Params = append(info.Params, Param{Type: ts})
				}
				for _, n := range fl.Names {
					info.Params = append(info.Params, Param{Name: n.Name, Type: ts})
				}
			}
		}
		if fd.Type.Results != nil {
			for _, fl := range fd.Type.Results.List {
				ts := exprString(fset, fl.Type)
				n := len(fl.Names)
				if n == 0 {
					n = 1
				}
				for i := 0; i < n; i++ {
					info.Results = append(info.Results, Param{Type: ts})
				}
			}
		}
		r.info = &info
		r.funcDecl(fd)
		if r.err != nil {
			return nil, r.err
		}
		sort.Strings(info.Shared)
		res.Funcs = append(res.Funcs, info)
	}
	// add the scheduler import
	imp := &ast.ImportSpec{Name: ast.NewIdent(schedAlias), Path: &ast.BasicLit{Kind: token.STRING, Value: strconv.Quote("verif/sched")}}
	added := false
	for _, d := range f.Decls {
		if gd, ok := d.(*ast.GenDecl); ok && gd.Tok == token.IMPORT {
			gd.Specs = append(gd.Specs, imp)
			if !gd.Lparen.IsValid() {
				gd.Lparen = gd.Pos()
				gd.Rparen = gd.End()
			}
			added = true
			break
		}
	}
	if !added {
		f.Decls = append([]ast.Decl{&ast.GenDecl{Tok: token.IMPORT, Specs: []ast.Spec{imp}}}, f.Decls...)
	}
	f.Comments = nil
	var out bytes.Buffer
	out.WriteString("// Instrumented copy of generated code (verif/internal/rewrite). DO NOT EDIT.\n\n")
	if err := format.Node(&out, fset, f); err != nil {
		return nil, fmt.Errorf("print instrumented file: %w", err)
	}
	// a blank use keeps the import alive for functions without any synchronisation
	out.WriteString("\nvar _ = " + schedAlias + ".Cur\n")
	res.Src = out.Bytes()
	return res, nil
}

// sharedVars finds variables declared in the function (outside function literals) that are
// referenced inside at least one function literal.
func (r *rw) sharedVars(fd *ast.FuncDecl) {
	r.shared = map[*ast.Object]string{}
	declaredOutside := map[*ast.Object]bool{}
	var scan func(n ast.Node, depth int)
	inLitUse := map[*ast.Object]bool{}
	scan = func(n ast.Node, depth int) {
		ast.Inspect(n, func(m ast.Node) bool {
			switch x := m.(type) {
			case *ast.FuncLit:
				if m == n {
					return true
				}
				scan(x.Body, depth+1)
				return false
			case *ast.Ident:
				if x.Obj != nil && x.Obj.Kind == ast.Var {
					if depth == 0 {
						if declPos(x.Obj) == x.Pos() {
							declaredOutside[x.Obj] = true
						}
					} else {
						inLitUse[x.Obj] = true
					}
				}
			}
			return true
		})
	}
	scan(fd.Type, 0)
	scan(fd.Body, 0)
	// A variable that is never assigned after its declaration (done-channels, the errgroup) cannot
	// race: its only write precedes, in program order, the creation of every closure that mentions it.
	assigned := map[*ast.Object]bool{}
	ast.Inspect(fd.Body, func(m ast.Node) bool {
		switch x := m.(type) {
		case *ast.AssignStmt:
			for _, l := range x.Lhs {
				if id, ok := l.(*ast.Ident); ok && id.Obj != nil && !(x.Tok == token.DEFINE && declPos(id.Obj) == id.Pos()) {
					assigned[id.Obj] = true
				}
			}
		case *ast.IncDecStmt:
			if id, ok := x.X.(*ast.Ident); ok && id.Obj != nil {
				assigned[id.Obj] = true
			}
		case *ast.UnaryExpr:
			if x.Op == token.AND {
				if id, ok := x.X.(*ast.Ident); ok && id.Obj != nil {
					assigned[id.Obj] = true // address taken: be conservative
				}
			}
		}
		return true
	})
	used := map[string]int{}
	var objs []*ast.Object
	for o := range inLitUse {
		if declaredOutside[o] && assigned[o] {
			objs = append(objs, o)
		}
	}
	sort.Slice(objs, func(i, j int) bool { return declPos(objs[i]) < declPos(objs[j]) })
	for _, o := range objs {
		name := o.Name
		if used[name] > 0 {
			name = fmt.Sprintf("%s#%d", o.Name, used[o.Name])
		}
		used[o.Name]++
		r.shared[o] = name
		r.info.Shared = append(r.info.Shared, name)
	}
}

func declPos(o *ast.Object) token.Pos {
	switch d := o.Decl.(type) {
	case *ast.Field:
		for _, n := range d.Names {
			if n.Name == o.Name {
				return n.Pos()
			}
		}
	case *ast.ValueSpec:
		for _, n := range d.Names {
			if n.Name == o.Name {
				return n.Pos()
			}
		}
	case *ast.AssignStmt:
		for _, l := range d.Lhs {
			if id, ok := l.(*ast.Ident); ok && id.Name == o.Name {
				return id.Pos()
			}
		}
	case *ast.RangeStmt:
		for _, l := range []ast.Expr{d.Key, d.Value} {
			if id, ok := l.(*ast.Ident); ok && id.Name == o.Name {
				return id.Pos()
			}
		}
	}
	return o.Pos()
}

func (r *rw) funcDecl(fd *ast.FuncDecl) {
	r.sharedVars(fd)
	var pre []ast.Stmt
	// parameters are initialised
	var inits []string
	if fd.Type.Params != nil {
		for _, fl := range fd.Type.Params.List {
			for _, n := range fl.Names {
				if s, ok := r.shared[n.Obj]; ok {
					inits = append(inits, s)
				}
			}
		}
	}
	if len(inits) > 0 {
		pre = append(pre, r.initStmt(inits))
	}
	fd.Body.List = append(pre, r.stmts(fd.Body.List, "")...)
}

func (r *rw) initStmt(vars []string) ast.Stmt {
	args := make([]ast.Expr, len(vars))
	for i, v := range vars {
		args[i] = strLit(v)
	}
	return &ast.ExprStmt{X: call(sel(schedAlias, "Init"), args...)}
}

// uses collects shared variables read in the expressions.
func (r *rw) reads(nodes ...ast.Node) []string {
	set := map[string]bool{}
	for _, n := range nodes {
		if n == nil || isNilNode(n) {
			continue
		}
		ast.Inspect(n, func(m ast.Node) bool {
			switch x := m.(type) {
			case *ast.FuncLit:
				return false
			case *ast.Ident:
				if x.Obj != nil {
					if s, ok := r.shared[x.Obj]; ok {
						set[s] = true
					}
				}
			}
			return true
		})
	}
	return sortedKeys(set)
}

func isNilNode(n ast.Node) bool {
	switch x := n.(type) {
	case ast.Expr:
		return x == nil
	case ast.Stmt:
		return x == nil
	}
	return false
}

func sortedKeys(m map[string]bool) []string {
	var out []string
	for k := range m {
		out = append(out, k)
	}
	sort.Strings(out)
	return out
}

func (r *rw) access(label string, reads, writes []string) []ast.Stmt {
	if len(reads) == 0 && len(writes) == 0 {
		return nil
	}
	return []ast.Stmt{&ast.ExprStmt{X: call(sel(schedAlias, "Access"), strLit(label), strSlice(reads), strSlice(writes))}}
}

func (r *rw) wrote(writes []string) []ast.Stmt {
	if len(writes) == 0 {
		return nil
	}
	args := make([]ast.Expr, len(writes))
	for i, v := range writes {
		args[i] = strLit(v)
	}
	return []ast.Stmt{&ast.ExprStmt{X: call(sel(schedAlias, "Wrote"), args...)}}
}

func (r *rw) label(n ast.Node) string {
	s := exprString(r.fset, n)
	if i := strings.IndexByte(s, '\n'); i >= 0 {
		s = s[:i] + " …"
	}
	if len(s) > 60 {
		s = s[:60] + "…"
	}
	return s
}

// checkNoChanOps refuses channel operations hidden inside expressions.
func (r *rw) checkNoChanOps(n ast.Node) {
	if n == nil || isNilNode(n) {
		return
	}
	ast.Inspect(n, func(m ast.Node) bool {
		switch x := m.(type) {
		case *ast.FuncLit:
			return false
		case *ast.UnaryExpr:
			if x.Op == token.ARROW {
				r.fail("receive inside an expression: %s", r.label(n))
			}
		case *ast.CallExpr:
			if id, ok := x.Fun.(*ast.Ident); ok && id.Obj == nil && (id.Name == "close" || id.Name == "panic" || id.Name == "recover") {
				r.fail("builtin %s inside an expression: %s", id.Name, r.label(n))
			}
		}
		return true
	})
}

// rewriteMakes replaces make(chan T[, n]) in a value spec.
func (r *rw) rewriteMake(e ast.Expr, name string) ast.Expr {
	c, ok := e.(*ast.CallExpr)
	if !ok {
		return e
	}
	id, ok := c.Fun.(*ast.Ident)
	if !ok || id.Name != "make" || id.Obj != nil || len(c.Args) == 0 {
		return e
	}
	ct, ok := c.Args[0].(*ast.ChanType)
	if !ok {
		return e
	}
	var n ast.Expr = &ast.BasicLit{Kind: token.INT, Value: "0"}
	if len(c.Args) > 1 {
		n = c.Args[1]
	}
	return call(&ast.IndexExpr{X: sel(schedAlias, "MakeChan"), Index: ct.Value}, n, strLit(name))
}

func (r *rw) site(kind string) string {
	p := "main:"
	if r.inLit > 0 {
		p = "go:"
	}
	return p + kind
}

// stmts instruments a statement list. ctx describes the enclosing construct for return-site labels.
func (r *rw) stmts(list []ast.Stmt, ctx string) []ast.Stmt {
	var out []ast.Stmt
	for _, s := range list {
		out = append(out, r.stmt(s, ctx)...)
	}
	return out
}

func (r *rw) funcLit(fl *ast.FuncLit) {
	r.inLit++
	if r.inLit > 1 {
		r.fail("nested function literal")
	}
	fl.Body.List = r.stmts(fl.Body.List, "")
	r.inLit--
}

func (r *rw) stmt(s ast.Stmt, ctx string) []ast.Stmt {
	switch x := s.(type) {
	case *ast.DeclStmt:
		gd, ok := x.Decl.(*ast.GenDecl)
		if !ok || gd.Tok != token.VAR {
			if ok && (gd.Tok == token.CONST || gd.Tok == token.TYPE) {
				return []ast.Stmt{s}
			}
			r.fail("declaration statement %s", r.label(s))
			return nil
		}
		var inits, rd []string
		for _, sp := range gd.Specs {
			vs := sp.(*ast.ValueSpec)
			for i, v := range vs.Values {
				r.checkNoChanOps(v)
				rd = append(rd, r.reads(v)...)
				name := ""
				if i < len(vs.Names) {
					name = vs.Names[i].Name
				}
				vs.Values[i] = r.rewriteMake(v, name)
			}
			if len(vs.Values) > 0 {
				for _, n := range vs.Names {
					if sname, ok := r.shared[n.Obj]; ok {
						inits = append(inits, sname)
					}
				}
			}
		}
		out := r.access(r.label(s), rd, nil)
		out = append(out, s)
		if len(inits) > 0 {
			out = append(out, r.initStmt(inits))
		}
		return out

	case *ast.AssignStmt:
		for _, e := range x.Rhs {
			r.checkNoChanOps(e)
		}
		var writes []string
		var lhsReads []ast.Node
		for _, l := range x.Lhs {
			if id, ok := l.(*ast.Ident); ok {
				if id.Obj != nil {
					if sname, ok := r.shared[id.Obj]; ok {
						writes = append(writes, sname)
					}
				}
				continue
			}
			r.checkNoChanOps(l)
			lhsReads = append(lhsReads, l)
		}
		var nodes []ast.Node
		for _, e := range x.Rhs {
			nodes = append(nodes, e)
		}
		nodes = append(nodes, lhsReads...)
		rd := r.reads(nodes...)
		for _, e := range x.Rhs {
			r.litsIn(e)
		}
		out := r.access(r.label(s), rd, writes)
		out = append(out, s)
		out = append(out, r.wrote(writes)...)
		return out

	case *ast.ExprStmt:
		switch e := x.X.(type) {
		case *ast.UnaryExpr:
			if e.Op == token.ARROW {
				r.checkNoChanOps(e.X)
				out := r.access(r.label(s), r.reads(e.X), nil)
				return append(out, &ast.ExprStmt{X: call(sel(schedAlias, "Recv"), e.X)})
			}
		case *ast.CallExpr:
			if id, ok := e.Fun.(*ast.Ident); ok && id.Obj == nil && id.Name == "close" && len(e.Args) == 1 {
				r.checkNoChanOps(e.Args[0])
				out := r.access(r.label(s), r.reads(e.Args[0]), nil)
				return append(out, &ast.ExprStmt{X: call(sel(schedAlias, "Close"), e.Args[0])})
			}
			r.checkNoChanOps(e.Fun)
			for _, a := range e.Args {
				if _, ok := a.(*ast.FuncLit); !ok {
					r.checkNoChanOps(a)
				}
			}
			if se, ok := e.Fun.(*ast.SelectorExpr); ok && se.Sel.Name == "Go" && len(e.Args) == 1 {
				if _, ok := e.Args[0].(*ast.FuncLit); ok {
					r.info.Goroutines++
				}
			}
			out := r.access(r.label(e.Fun), r.reads(x.X), nil)
			r.litsIn(e)
			return append(out, s)
		}
		r.fail("expression statement %s", r.label(s))
		return nil

	case *ast.GoStmt:
		fl, ok := x.Call.Fun.(*ast.FuncLit)
		if !ok || len(x.Call.Args) != 0 {
			r.fail("go statement %s", r.label(s))
			return nil
		}
		r.info.Goroutines++
		r.funcLit(fl)
		return []ast.Stmt{&ast.ExprStmt{X: call(sel(schedAlias, "Go"), fl)}}

	case *ast.IfStmt:
		var out []ast.Stmt
		var nodes []ast.Node
		kind := "if"
		if x.Init != nil {
			as, ok := x.Init.(*ast.AssignStmt)
			if !ok {
				r.fail("if-init %s", r.label(x.Init))
				return nil
			}
			for _, e := range as.Rhs {
				r.checkNoChanOps(e)
				nodes = append(nodes, e)
				if c, ok := e.(*ast.CallExpr); ok {
					if se, ok := c.Fun.(*ast.SelectorExpr); ok && se.Sel.Name == "Wait" {
						kind = "egwait-err"
					}
				}
			}
			for _, l := range as.Lhs {
				if id, ok := l.(*ast.Ident); ok && id.Obj != nil {
					if _, sh := r.shared[id.Obj]; sh {
						r.fail("if-init assigns a shared variable: %s", r.label(x.Init))
					}
				}
			}
		}
		r.checkNoChanOps(x.Cond)
		nodes = append(nodes, x.Cond)
		if kind == "if" && strings.Contains(exprString(r.fset, x.Cond), "err") {
			kind = "provider-err"
		}
		out = r.access("if "+r.label(x.Cond), r.reads(nodes...), nil)
		x.Body.List = r.stmts(x.Body.List, kind)
		switch el := x.Else.(type) {
		case nil:
		case *ast.BlockStmt:
			el.List = r.stmts(el.List, kind)
		default:
			r.fail("else-if chain")
		}
		return append(out, s)

	case *ast.RangeStmt:
		r.checkNoChanOps(x.X)
		out := r.access("range "+r.label(x.X), r.reads(x.X), nil)
		for _, kv := range []ast.Expr{x.Key, x.Value} {
			if id, ok := kv.(*ast.Ident); ok && id.Obj != nil {
				if _, sh := r.shared[id.Obj]; sh {
					r.fail("range variable is shared")
				}
			}
		}
		x.Body.List = r.stmts(x.Body.List, ctx)
		return append(out, s)

	case *ast.BlockStmt:
		x.List = r.stmts(x.List, ctx)
		return []ast.Stmt{s}

	case *ast.SelectStmt:
		var chans []ast.Expr
		var nodes []ast.Node
		hasDefault := false
		sw := &ast.SwitchStmt{Body: &ast.BlockStmt{}}
		idx := 0
		for _, c := range x.Body.List {
			cc := c.(*ast.CommClause)
			if cc.Comm == nil {
				hasDefault = true
				sw.Body.List = append(sw.Body.List, &ast.CaseClause{List: []ast.Expr{&ast.UnaryExpr{Op: token.SUB, X: &ast.BasicLit{Kind: token.INT, Value: "1"}}}, Body: r.stmts(cc.Body, "select-default")})
				continue
			}
			es, ok := cc.Comm.(*ast.ExprStmt)
			var ue *ast.UnaryExpr
			if ok {
				ue, ok = es.X.(*ast.UnaryExpr)
			}
			if !ok || ue.Op != token.ARROW {
				r.fail("select case that is not a plain receive: %s", r.label(cc.Comm))
				return nil
			}
			r.checkNoChanOps(ue.X)
			chans = append(chans, ue.X)
			nodes = append(nodes, ue.X)
			kind := "wait-ch"
			if strings.Contains(exprString(r.fset, ue.X), ".Done()") {
				kind = "wait-ctx"
			}
			sw.Body.List = append(sw.Body.List, &ast.CaseClause{List: []ast.Expr{&ast.BasicLit{Kind: token.INT, Value: strconv.Itoa(idx)}}, Body: r.stmts(cc.Body, kind)})
			idx++
		}
		hd := "false"
		if hasDefault {
			hd = "true"
		}
		sw.Tag = call(sel(schedAlias, "Select"), append([]ast.Expr{ast.NewIdent(hd)}, chans...)...)
		out := r.access("select", r.reads(nodes...), nil)
		return append(out, sw)

	case *ast.ReturnStmt:
		var nodes []ast.Node
		for _, e := range x.Results {
			r.checkNoChanOps(e)
			nodes = append(nodes, e)
		}
		kind := ctx
		if kind == "" {
			kind = "final"
		}
		label := r.site(kind)
		found := false
		for _, s := range r.info.Sites {
			if s == label {
				found = true
			}
		}
		if !found {
			r.info.Sites = append(r.info.Sites, label)
		}
		out := r.access(r.label(s), r.reads(nodes...), nil)
		out = append(out, &ast.ExprStmt{X: call(sel(schedAlias, "Site"), strLit(label))})
		return append(out, s)

	case *ast.EmptyStmt:
		return []ast.Stmt{s}
	}
	r.fail("statement %T: %s", s, r.label(s))
	return nil
}

// litsIn instruments function literals that appear as call arguments (eg.Go(func() error {...})).
func (r *rw) litsIn(e ast.Expr) {
	ast.Inspect(e, func(m ast.Node) bool {
		if fl, ok := m.(*ast.FuncLit); ok {
			r.funcLit(fl)
			return false
		}
		return true
	})
}
