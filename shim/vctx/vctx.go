// Package vctx is a context implementation whose cancellation and error reads are scheduling
// points of verif/sched. It implements context.Context, so instrumented code keeps its
// signatures; only the constructor calls are redirected.
package vctx

import (
	"context"
	"fmt"
	"time"

	"verif/sched"
)

type Ctx struct {
	parent   *Ctx
	st       *sched.CtxState
	done     chan struct{}
	err      error
	cause    error
	children []*Ctx
}

var _ context.Context = (*Ctx)(nil)

// New returns a root context of the current world that can be cancelled with Cancel.
func New() *Ctx {
	w := sched.Cur()
	c := &Ctx{done: make(chan struct{})}
	c.st = w.NewCtx(-1, c.done)
	return c
}

func (c *Ctx) Deadline() (time.Time, bool) { return time.Time{}, false }
func (c *Ctx) Done() <-chan struct{}       { return c.done }
func (c *Ctx) Value(key any) any           { return nil }
func (c *Ctx) ID() int                     { return c.st.ID }

// Err is a scheduling point: it reads state another thread may write.
func (c *Ctx) Err() error {
	if !sched.CtxErrPoint(c.st.ID) {
		return c.err
	}
	s := ""
	if c.err != nil {
		s = c.err.Error()
	}
	sched.CtxErrDone(c.st.ID, s)
	return c.err
}

// ErrNow reads the error without a scheduling point (harness use, after the run).
func (c *Ctx) ErrNow() error   { return c.err }
func (c *Ctx) CauseNow() error { return c.cause }

func (c *Ctx) cancelLocked(err, cause error) {
	if c.err != nil {
		return
	}
	c.err = err
	if cause == nil {
		cause = err
	}
	c.cause = cause
	c.st.Err = err.Error()
	c.st.Cause = fmt.Sprint(cause)
	sched.Cur().CloseShadow(c.st.Done, c.done)
	for _, ch := range c.children {
		ch.cancelLocked(err, cause)
	}
}

// Cancel cancels c and, in the same atomic step, every context derived from it.
func (c *Ctx) Cancel(cause error, label string) {
	if !sched.CancelPoint(c.st.ID, label) {
		return
	}
	first := c.err == nil
	c.cancelLocked(context.Canceled, cause)
	sched.CancelDone(c.st.ID, first, label)
}

func derive(parent context.Context) *Ctx {
	p, ok := parent.(*Ctx)
	if !ok {
		panic(fmt.Sprintf("vctx: parent context %T is not a vctx context (outside the model)", parent))
	}
	w := sched.Cur()
	c := &Ctx{parent: p, done: make(chan struct{})}
	c.st = w.NewCtx(p.st.ID, c.done)
	p.children = append(p.children, c)
	if p.err != nil {
		c.cancelLocked(p.err, p.cause)
	}
	return c
}

// WithCancelCause mirrors context.WithCancelCause.
func WithCancelCause(parent context.Context) (context.Context, context.CancelCauseFunc) {
	c := derive(parent)
	return c, func(cause error) { c.Cancel(cause, "cancel-cause") }
}

// WithCancel mirrors context.WithCancel.
func WithCancel(parent context.Context) (context.Context, context.CancelFunc) {
	c := derive(parent)
	return c, func() { c.Cancel(nil, "cancel") }
}

// Cause mirrors context.Cause for vctx contexts.
func Cause(ctx context.Context) error {
	if c, ok := ctx.(*Ctx); ok {
		return c.cause
	}
	return context.Cause(ctx)
}
