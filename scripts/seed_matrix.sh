#!/bin/bash
# usage: seed_matrix.sh [<seed>...] — run every seeded change (or the named ones) against the quick check of the
# property it was written for, each in a scratch worktree of /repo (scripts/try_seed_wt.sh), and print one line per
# seed: CAUGHT (exit 1 with a VIOLATION line), MISSED (exit 0) or NO-VERDICT (exit 2). Results go to $OUT (default
# /tmp/seedres). Work directories of other tree hashes older than 45 minutes are removed as it goes (disk).
OUT=${OUT:-/tmp/seedres}; mkdir -p $OUT
cd /verif
seeds=("$@")
if [ ${#seeds[@]} -eq 0 ]; then for d in seeded/C*/; do seeds+=("$(basename $d)"); done; fi
for s in "${seeds[@]}"; do
  [ -f seeded/$s/patch.diff ] || continue
  git -C /repo apply --check /verif/seeded/$s/patch.diff 2>/dev/null || { echo "$s: SKIPPED (patch does not apply to HEAD)"; continue; }
  prop=$(python3 -c "import json;print(json.load(open('seeded/$s/meta.json')).get('property','${s:0:3}'))" 2>/dev/null || echo ${s:0:3})
  find /verif/work -maxdepth 1 -type d -mmin +45 -regex '.*/[0-9a-f]+' -newermt '2000-01-01' 2>/dev/null | while read d; do
    [ "$(basename $d)" = "$(cat /verif/work/.clean_hash 2>/dev/null)" ] || rm -rf "$d"
  done
  bash scripts/try_seed_wt.sh $s $prop ${EXTRA_CHECKS:-} > $OUT/$s.txt 2>&1
  rc=$(grep -m1 -oE "check=$prop exit=[0-9]+" $OUT/$s.txt | grep -oE "[0-9]+$")
  case "$rc" in
    1) echo "$s: CAUGHT by $prop ($(grep -oE 'kind=[a-z-]+' $OUT/$s.txt | sort -u | tr '\n' ' '))";;
    0) echo "$s: MISSED by $prop";;
    *) echo "$s: NO-VERDICT from $prop (exit ${rc:-?})";;
  esac
done
