//go:build verif

// c12drv explores request histories of the real VarPool breadth-first (explicit-state search with
// deduplication on the allocator state) and checks on every transition that a generated name is
// fresh. It lives inside the kessoku module only through a build overlay.
//
// The driver uses nothing but the allocator's request API (NewVarPool, GetName, Get, GetChannel): a
// state is reached by replaying its history on a fresh pool, and the allocator state that enters the
// deduplication key is a deep reflective dump of whatever the pool contains. The oracle's notion of
// "reserved" comes from go/token and go/types, not from the repository's own tables.
package main

import (
	"crypto/sha256"
	"encoding/hex"
	"encoding/json"
	"flag"
	"fmt"
	"go/token"
	"go/types"
	"os"
	"reflect"
	"sort"
	"strings"

	"github.com/mazrean/kessoku/internal/kessoku"
)

type op struct {
	Kind string // reg | gen | gentype | genchan
	Arg  string
}

func (o op) String() string { return o.Kind + "(" + o.Arg + ")" }

var pkg = types.NewPackage("example.com/p", "p")

func namedType(spec string) types.Type {
	ptr := strings.HasPrefix(spec, "*")
	name := strings.TrimPrefix(spec, "*")
	var t types.Type
	switch name {
	case "int":
		t = types.Typ[types.Int]
	case "string":
		t = types.Typ[types.String]
	case "Context":
		cp := types.NewPackage("context", "context")
		t = types.NewNamed(types.NewTypeName(token.NoPos, cp, "Context", nil), types.NewInterfaceType(nil, nil), nil)
	default:
		t = types.NewNamed(types.NewTypeName(token.NoPos, pkg, name, nil), types.NewStruct(nil, nil), nil)
	}
	if ptr {
		t = types.NewPointer(t)
	}
	return t
}

// deepDump renders every field reachable from v (unexported ones included), maps in key order, pointers followed.
func deepDump(b *strings.Builder, v reflect.Value, depth int) {
	if depth > 8 {
		b.WriteString("<deep>")
		return
	}
	switch v.Kind() {
	case reflect.Ptr, reflect.Interface:
		if v.IsNil() {
			b.WriteString("nil")
			return
		}
		b.WriteString("&")
		deepDump(b, v.Elem(), depth+1)
	case reflect.Struct:
		b.WriteString("{")
		for i := 0; i < v.NumField(); i++ {
			b.WriteString(v.Type().Field(i).Name + ":")
			deepDump(b, v.Field(i), depth+1)
			b.WriteString(";")
		}
		b.WriteString("}")
	case reflect.Map:
		type kv struct{ k, v string }
		var kvs []kv
		it := v.MapRange()
		for it.Next() {
			var kb, vb strings.Builder
			deepDump(&kb, it.Key(), depth+1)
			deepDump(&vb, it.Value(), depth+1)
			kvs = append(kvs, kv{kb.String(), vb.String()})
		}
		sort.Slice(kvs, func(i, j int) bool { return kvs[i].k < kvs[j].k })
		b.WriteString("map[")
		for _, e := range kvs {
			b.WriteString(e.k + "=" + e.v + ",")
		}
		b.WriteString("]")
	case reflect.Slice, reflect.Array:
		b.WriteString("[")
		for i := 0; i < v.Len(); i++ {
			deepDump(b, v.Index(i), depth+1)
			b.WriteString(",")
		}
		b.WriteString("]")
	case reflect.String:
		fmt.Fprintf(b, "%q", v.String())
	case reflect.Int, reflect.Int8, reflect.Int16, reflect.Int32, reflect.Int64:
		fmt.Fprintf(b, "%d", v.Int())
	case reflect.Uint, reflect.Uint8, reflect.Uint16, reflect.Uint32, reflect.Uint64, reflect.Uintptr:
		fmt.Fprintf(b, "%d", v.Uint())
	case reflect.Bool:
		fmt.Fprintf(b, "%t", v.Bool())
	default:
		// funcs, chans, unsafe pointers: identity is not observable here; make the state unique so that it is never merged
		uniq++
		fmt.Fprintf(b, "<%s#%d>", v.Kind(), uniq)
	}
}

var uniq int

type violation struct {
	History []string `json:"history"`
	Name    string   `json:"name"`
	Why     string   `json:"why"`
	Shape   string   `json:"shape"`
}

func reservedWhy(name string) string {
	if token.IsKeyword(name) {
		return "keyword"
	}
	if types.Universe.Lookup(name) != nil {
		return "predeclared identifier"
	}
	return ""
}

type world struct {
	pool       *kessoku.VarPool
	issued     map[string]bool
	registered map[string]bool
}

func newWorld() *world {
	return &world{pool: kessoku.NewVarPool(), issued: map[string]bool{}, registered: map[string]bool{}}
}

// apply performs one request on the real allocator and returns the freshness verdict ("" = fresh).
func (w *world) apply(o op) (name, why string) {
	switch o.Kind {
	case "reg":
		_ = w.pool.GetName(o.Arg) // what ParseFile does for package-level names: result discarded
		w.registered[o.Arg] = true
		return "", ""
	case "gen":
		name = w.pool.GetName(o.Arg)
	case "gentype":
		name = w.pool.Get(namedType(o.Arg))
	case "genchan":
		name = w.pool.GetChannel(namedType(o.Arg))
	}
	switch {
	case reservedWhy(name) != "":
		why = "is a Go " + reservedWhy(name)
	case name == "" || name == "_" || !token.IsIdentifier(name):
		why = "is not a usable Go identifier"
	case w.registered[name]:
		why = "is already declared at package level in the user's package"
	case w.issued[name]:
		why = "was already handed out earlier in this invocation"
	}
	w.issued[name] = true
	return name, why
}

func (w *world) key() string {
	var b strings.Builder
	deepDump(&b, reflect.ValueOf(w.pool), 0)
	var is, rs []string
	for k := range w.issued {
		is = append(is, k)
	}
	for k := range w.registered {
		rs = append(rs, k)
	}
	sort.Strings(is)
	sort.Strings(rs)
	b.WriteString("|" + strings.Join(is, ",") + "|" + strings.Join(rs, ","))
	h := sha256.Sum256([]byte(b.String()))
	return hex.EncodeToString(h[:12])
}

func alphabet(name string) []op {
	var bases, tys []string
	switch name {
	case "foo":
		bases = []string{"foo", "foo0", "foo1", "foo00", "fooCh", "fooCh0"}
		tys = []string{"Foo", "Foo0", "FooCh"}
	case "num":
		// bases whose suffixed forms are predeclared identifiers (int8, uint16, float32, complex64 ...)
		bases = []string{"int", "uint", "float", "complex", "int8", "int0", "uint8"}
		tys = []string{"Int", "*Int", "Uint", "Float", "Complex", "Int0"}
	default:
		bases = []string{"foo", "foo0", "foo1", "fooCh", "fooCh0", "err", "err0", "ctx", "eg", "len", "len0", "type", "string"}
		tys = []string{"Foo", "*Foo", "Foo0", "FooCh", "Err", "Context", "int", "string"}
	}
	var ops []op
	for _, b := range bases {
		ops = append(ops, op{"reg", b})
	}
	for _, b := range bases {
		ops = append(ops, op{"gen", b})
	}
	for _, t := range tys {
		ops = append(ops, op{"gentype", t}, op{"genchan", t})
	}
	return ops
}

func main() {
	depth := flag.Int("depth", 4, "history depth of the breadth-first search")
	alpha := flag.String("alphabet", "full", "full | foo | num")
	chain := flag.Int("chain", 0, "additionally: for every operation o of the alphabet and every prefix operation p (or none), the history p, o^k for k up to this length")
	flag.Parse()
	ops := alphabet(*alpha)
	var viols []violation
	violSeen := map[string]bool{}
	note := func(hist []op, name, why string) {
		shape := shapeOf(hist, name)
		key := shape + "|" + why
		if violSeen[key] {
			return
		}
		violSeen[key] = true
		var hs []string
		for _, h := range hist {
			hs = append(hs, h.String())
		}
		if len(hs) > 24 {
			// long chains: keep the ends, say how many were elided
			hs = append(append(append([]string{}, hs[:4]...), fmt.Sprintf("... (%d more requests) ...", len(hs)-8)), hs[len(hs)-4:]...)
		}
		viols = append(viols, violation{History: hs, Name: name, Why: why, Shape: shape})
	}
	replay := func(hist []op) *world {
		w := newWorld()
		for _, o := range hist {
			w.apply(o)
		}
		return w
	}
	seen := map[string]bool{newWorld().key(): true}
	frontier := [][]op{nil}
	states, transitions := 1, 0
	for d := 0; d < *depth; d++ {
		var next [][]op
		for _, hist := range frontier {
			for _, o := range ops {
				transitions++
				w := replay(hist)
				name, why := w.apply(o)
				nh := append(append([]op(nil), hist...), o)
				if why != "" {
					note(nh, name, why)
				}
				if k := w.key(); !seen[k] {
					seen[k] = true
					states++
					next = append(next, nh)
				}
			}
		}
		frontier = next
	}
	chainTransitions := 0
	if *chain > 0 {
		prefixes := append([]op{{}}, ops...)
		for _, p := range prefixes {
			for _, o := range ops {
				if o.Kind == "reg" {
					continue
				}
				w := newWorld()
				var hist []op
				if p.Kind != "" {
					w.apply(p)
					hist = append(hist, p)
				}
				for k := 0; k < *chain; k++ {
					chainTransitions++
					name, why := w.apply(o)
					hist = append(hist, o)
					if why != "" {
						note(hist, name, why)
					}
				}
			}
		}
	}
	out := map[string]any{"states": states, "transitions": transitions + chainTransitions, "chain_transitions": chainTransitions, "chain": *chain, "depth": *depth, "alphabet": len(ops), "violations": viols, "ops": fmt.Sprint(ops)}
	b, _ := json.Marshal(out)
	os.Stdout.Write(b)
}

// shapeOf abstracts a history to the mechanism: which kinds of requests produced the colliding name.
func shapeOf(h []op, name string) string {
	var parts []string
	last := ""
	rep := 0
	flush := func() {
		if last == "" {
			return
		}
		if rep > 3 {
			parts = append(parts, last+"*")
		} else {
			for i := 0; i < rep; i++ {
				parts = append(parts, last)
			}
		}
	}
	for _, o := range h {
		arg := o.Arg
		switch o.Kind {
		case "gentype", "genchan":
			arg = strings.TrimPrefix(arg, "*")
			if arg != "" {
				arg = strings.ToLower(arg[:1]) + arg[1:]
			}
			if o.Kind == "genchan" {
				arg += "Ch"
			}
		}
		rel := ""
		switch {
		case arg == name:
			rel = "name"
		case strings.HasPrefix(name, arg) && isDigits(name[len(arg):]):
			rel = "base"
		default:
			continue
		}
		k := "gen"
		if o.Kind == "reg" {
			k = "reg"
		}
		cur := k + "(" + rel + ")"
		if cur == last {
			rep++
			continue
		}
		flush()
		last, rep = cur, 1
	}
	flush()
	return strings.Join(parts, ",")
}

func isDigits(s string) bool {
	if s == "" {
		return false
	}
	for _, c := range s {
		if c < '0' || c > '9' {
			return false
		}
	}
	return true
}
