module verif

go 1.25.5
