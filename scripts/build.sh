#!/bin/bash
# Builds the verification machinery from files on disk only (offline). Used by MANIFEST.setup_cmd.
set -e
cd /verif
. scripts/env.sh
H=$(cat $(find internal/decl internal/rewrite internal/pipe sched shim rt explore conform -name '*.go' ! -name '*_test.go' | sort) | sha256sum | cut -c1-16)
mkdir -p bin
go build -buildvcs=false -ldflags "-X verif/internal/pipe.MachHash=$H" -o bin/vcheck ./cmd/vcheck
if [ "${1:-}" = "--selftest" ]; then
  # engine self-tests: known-answer litmus programs must fail the right way on every setup
  go test -count=1 ./sched ./internal/... > /tmp/verif-selftest.log 2>&1 || { cat /tmp/verif-selftest.log; echo "SELFTEST FAILED"; exit 1; }
  echo "selftest ok"
fi
