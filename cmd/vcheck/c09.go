package main

import (
	"fmt"
	"os"
	"path/filepath"
	"regexp"
	"strings"
	"time"

	"verif/internal/decl"
	"verif/internal/pipe"
)

// c09Bases selects the valid declarations used as planting ground.
func c09Bases(tier string) []*decl.Decl {
	maxN := 3
	if tier == "thorough" {
		maxN = 4
	}
	keepVariant := regexp.MustCompile(`^base n=(\d) edges=\d+ async=(\d+) fallible=0( \+ (bind|bind-half|multi-split|multi-both|multi-first-unused|struct-ptr|struct-val|struct-split|valtype|dup-param|arg-append|value)@\d)?$`)
	var out []*decl.Decl
	for _, d := range decl.Universe(tier) {
		m := keepVariant.FindStringSubmatch(d.Note)
		if m == nil {
			continue
		}
		n := int(m[1][0] - '0')
		if n > maxN {
			continue
		}
		async := m[2]
		allAsync := strings.Count(async, "1") == n && !strings.Contains(async, "0")
		noAsync := !strings.Contains(async, "1")
		if m[3] == "" {
			if !allAsync && !noAsync {
				continue
			}
		} else if !noAsync && !(tier == "thorough" && allAsync) {
			continue
		}
		out = append(out, d)
	}
	return out
}

var reTypeName = regexp.MustCompile(`\*?[\w./\-]+\.([A-Za-z_][A-Za-z0-9_]*)`)

// cycleNames extracts "*T0 -> *T1 -> *T0" style names from the diagnostic.
func cycleNames(stderr string) []string {
	i := strings.Index(stderr, "circular dependency detected:")
	if i < 0 {
		return nil
	}
	line := stderr[i+len("circular dependency detected:"):]
	if j := strings.IndexByte(line, '\n'); j >= 0 {
		line = line[:j]
	}
	var out []string
	for _, part := range strings.Split(line, "->") {
		part = strings.TrimSpace(part)
		if part == "" {
			continue
		}
		star := ""
		if strings.HasPrefix(part, "*") {
			star = "*"
		}
		if k := strings.LastIndexByte(part, '.'); k >= 0 {
			part = part[k+1:]
		} else {
			part = strings.TrimPrefix(part, "*")
		}
		out = append(out, star+part)
	}
	return out
}

func mentions(stderr, t string) bool {
	name := strings.TrimPrefix(t, "*")
	return regexp.MustCompile(`[./]` + regexp.QuoteMeta(name) + `\b`).MatchString(stderr) || regexp.MustCompile(`\b`+regexp.QuoteMeta(name)+`\b`).MatchString(stderr)
}

type c09Case struct {
	d      *decl.Decl
	kind   string
	where  string
	stale  bool
	// company: another, valid declaration in the same source file, "before" or "after" the one under test
	company string
	// prev: the stale output is what the generator itself produced for this (valid) declaration before the source was
	// edited into the one under test - not a hand-written leftover
	prev *decl.Decl
	ref    *decl.Ref
	exit   int
	stderr string
	dir    string
	before string
	mtime  time.Time
}

func runC09(args []string) {
	tier := parseTier(args)
	rc := newRunCtx("C09", tier)
	rc.Level = "exploration"
	env := pipe.Setup()
	bases := c09Bases(tier)
	var cases []*c09Case
	for _, b := range bases {
		cases = append(cases, &c09Case{d: b, kind: "valid", where: "unmodified valid declaration"})
		if len(cases)%5 == 0 || tier == "thorough" {
			cases = append(cases, &c09Case{d: b, kind: "valid", where: "unmodified valid declaration", company: []string{"before", "after"}[len(cases)%2]})
		}
		for i, p := range decl.Plants(b) {
			cases = append(cases, &c09Case{d: p.D, kind: p.Kind, where: p.Where})
			if tier == "thorough" || i%3 == 0 {
				cases = append(cases, &c09Case{d: p.D, kind: p.Kind, where: p.Where, stale: true})
			}
			if tier == "thorough" || i%3 == 1 {
				// history: generate the valid declaration, then edit the source into the refused one and run again
				cases = append(cases, &c09Case{d: p.D, kind: p.Kind, where: p.Where, stale: true, prev: b})
			}
			// the refused declaration shares its file with a valid one: the file's output must still not appear
			if tier == "thorough" || i%2 == 1 {
				comp := []string{"before", "after"}[(i/2)%2]
				cases = append(cases, &c09Case{d: p.D, kind: p.Kind, where: p.Where, company: comp, stale: i%4 == 3})
				if tier == "thorough" {
					cases = append(cases, &c09Case{d: p.D, kind: p.Kind, where: p.Where, company: []string{"after", "before"}[(i/2)%2]})
				}
			}
		}
	}
	dir := filepath.Join(env.Work, fmt.Sprintf("c09-%s-%d", tier, os.Getpid()))
	_ = os.RemoveAll(dir)
	env.WriteModule(dir, "corpus")
	defer os.RemoveAll(dir)
	pipe.Parallel(len(cases), 32, func(i int) {
		c := cases[i]
		pkg := fmt.Sprintf("q%05d", i)
		c.dir = filepath.Join(dir, "o", pkg)
		_ = os.MkdirAll(c.dir, 0o755)
		src := c.d.Emit(pkg)
		const companion = "type X9c struct{ R string }\n\nfunc Pre9c() *X9c { return &X9c{R: \"company\"} }\n\nvar _ = kessoku.Inject[*X9c](\"Company\", kessoku.Provide(Pre9c))\n\n"
		switch c.company {
		case "after":
			src += "\n" + companion
		case "before":
			if k := strings.Index(src, "var _ = rt.Call\n\n"); k >= 0 {
				k += len("var _ = rt.Call\n\n")
				src = src[:k] + companion + src[k:]
			}
		}
		_ = os.WriteFile(filepath.Join(c.dir, "p.go"), []byte(src), 0o644)
		band := filepath.Join(c.dir, "p_band.go")
		if c.stale && c.prev != nil {
			_ = os.WriteFile(filepath.Join(c.dir, "p.go"), []byte(c.prev.Emit(pkg)), 0o644)
			if code, _ := env.RunKessoku(c.dir, "-l", "error", "p.go"); code != 0 {
				c.prev = nil // the base itself is not accepted: fall back to the hand-written leftover
			}
			_ = os.WriteFile(filepath.Join(c.dir, "p.go"), []byte(src), 0o644)
		}
		if c.stale && c.prev != nil {
			b, _ := os.ReadFile(band)
			c.before = string(b)
			old := time.Now().Add(-48 * time.Hour).Truncate(time.Second)
			_ = os.Chtimes(band, old, old)
			c.mtime = old
		} else if c.stale {
			c.before = "// Code generated by kessoku. DO NOT EDIT.\n\npackage " + pkg + "\n\n// stale output of an earlier run\nfunc StaleLeftover() int { return 42 }\n"
			_ = os.WriteFile(band, []byte(c.before), 0o644)
			old := time.Now().Add(-48 * time.Hour).Truncate(time.Second)
			_ = os.Chtimes(band, old, old)
			c.mtime = old
		}
		c.ref = decl.Reference(c.d)
		c.exit, c.stderr = env.RunKessoku(c.dir, "-l", "error", "p.go")
	})
	kinds := map[string]int{}
	distinct := map[string]bool{}
	refusedOK, acceptedOK, ambiguous := 0, 0, 0
	var samples []map[string]any
	for _, c := range cases {
		kinds[c.kind]++
		band := filepath.Join(c.dir, "p_band.go")
		after, err := os.ReadFile(band)
		exists := err == nil
		witness := c.d.Spec() + " {" + c.where + fmt.Sprintf("; stale output present=%v}", c.stale)
		if c.prev != nil {
			witness = c.d.Spec() + " {" + c.where + "; the output of the generator's own earlier run on the valid declaration is present}"
		}
		if c.company != "" {
			witness = c.d.Spec() + " {" + c.where + fmt.Sprintf("; stale output present=%v; a valid declaration %s it in the same file}", c.stale, c.company)
		}
		rep := map[string]any{"decl": c.d, "planted": c.where, "stale_output": c.stale, "exit": c.exit, "stderr": tailStr(c.stderr, 1500)}
		unchanged := func() bool {
			if !c.stale {
				return !exists
			}
			if !exists || string(after) != c.before {
				return false
			}
			info, err := os.Stat(band)
			return err == nil && info.ModTime().Equal(c.mtime)
		}
		mustRefuse := c.ref.Refuse != "" && !c.ref.Ambiguous
		mustAccept := c.ref.Refuse == ""
		switch {
		case mustRefuse:
			distinct[c.kind+"|"+c.d.SemKey()] = true
			if c.exit == 0 {
				rc.Add(Finding{Kind: "accepted-unsatisfiable", Site: c.ref.Refuse, Detail: "the generator exited 0 for a declaration with a " + c.ref.Refuse, Witness: witness, Replay: rep})
				continue
			}
			if !unchanged() {
				rc.Add(Finding{Kind: "output-touched-on-refusal", Site: c.ref.Refuse, Detail: "the generator refused the declaration but created or modified the output file", Witness: witness, Replay: rep})
				continue
			}
			switch c.ref.Refuse {
			case "cycle":
				names := cycleNames(c.stderr)
				if len(names) == 0 {
					rc.Add(Finding{Kind: "diagnostic-without-types", Site: "cycle", Detail: "the cycle diagnostic names no types: " + firstLine(lastLine(c.stderr)), Witness: witness, Replay: rep})
				} else if msg := decl.OnCycle(c.d, names); msg != "" {
					rc.Add(Finding{Kind: "diagnostic-wrong-types", Site: "cycle", Detail: msg, Witness: witness, Replay: rep})
				} else {
					refusedOK++
				}
			default:
				ok := false
				for _, t := range c.ref.RefuseTypes {
					if mentions(c.stderr, t) {
						ok = true
					}
				}
				if !ok {
					rc.Add(Finding{Kind: "diagnostic-without-types", Site: c.ref.Refuse, Detail: fmt.Sprintf("the diagnostic does not name any of %v: %s", c.ref.RefuseTypes, lastLine(c.stderr)), Witness: witness, Replay: rep})
				} else {
					refusedOK++
				}
			}
		case mustAccept:
			distinct["valid|"+c.d.SemKey()] = true
			if c.exit != 0 {
				rc.Add(Finding{Kind: "rejected-satisfiable", Detail: "the generator refused a well-typed, acyclic, unambiguous declaration: " + lastLine(c.stderr), Witness: witness, Replay: rep})
				continue
			}
			if !exists {
				rc.Add(Finding{Kind: "no-output", Detail: "exit 0 but no output file", Witness: witness, Replay: rep})
				continue
			}
			funcs, _, perr := parseFuncs(band)
			want := 1
			if c.d.Prelude == "ctx-injector" || c.d.Prelude == "async-injector" {
				want = 2
			}
			if c.company != "" {
				want++
			}
			named := false
			for _, f := range funcs {
				if f.Name == c.d.Name {
					named = true
				}
			}
			if perr != nil || len(funcs) != want || !named {
				rc.Add(Finding{Kind: "wrong-function-count", Detail: fmt.Sprintf("the output must declare exactly one function per declaration (want %d named %s), got %d", want, c.d.Name, len(funcs)), Witness: witness, Replay: rep})
				continue
			}
			acceptedOK++
		default:
			ambiguous++
			if c.exit != 0 && !unchanged() {
				rc.Add(Finding{Kind: "output-touched-on-refusal", Site: c.ref.Refuse, Detail: "the generator refused the declaration but created or modified the output file", Witness: witness, Replay: rep})
			}
		}
		if len(samples) < 5 && (len(samples) == 0 || kinds[c.kind] == 1+int(rc.Seed%3)) {
			samples = append(samples, map[string]any{"declaration": c.d.Spec(), "planted": c.where, "kind": c.kind, "stale_output": c.stale, "reference": map[string]any{"refuse": c.ref.Refuse, "ambiguous": c.ref.Ambiguous, "types": c.ref.RefuseTypes}, "exit": c.exit, "diagnostic": lastLine(c.stderr)})
		}
	}
	rc.Coverage = map[string]any{
		"evaluations":         len(cases),
		"distinct_nontrivial": len(distinct),
		"rule":                "valid declarations (n<=3 providers quick / <=4 thorough; plain, Bind, multi-value, Struct, Value, value-type and argument variants) and, for each, EVERY single planted defect: each back edge u->v with v depending on u (through each type v supplies: results, bound interface, expanded fields) incl. self loops; each duplicate supplier (second provider declared first/last, field type already supplied, two fields of one type); orphan Struct[S]/Struct[*S] with and without a consumer of its field; with and without a stale output file (a hand-written leftover, or the generator's own output for the valid declaration before the source was edited into the refused one); alone in its source file, or with a valid declaration before / after it in the same file (the file's output must still not be created or modified). Real CLI on every case; distinct = distinct (defect kind, declared graph) pairs the reference classifies unambiguously",
		"samples":             samples,
		"exhaustive":          true,
		"bases":               len(bases),
		"cases_by_kind":       kinds,
		"refused_as_required": refusedOK,
		"accepted_as_required": acceptedOK,
		"ambiguous_either_accepted": ambiguous,
		"tree_hash":           env.Hash,
	}
	rc.Assume = []string{"'names the types involved' is read as: a cycle diagnostic lists types whose providers form a closed walk of declared dependencies; a duplicate/orphan diagnostic contains the duplicated / struct type name", "a defect that involves no needed provider or used type is ambiguous in the statement; either answer is accepted"}
	rc.Finish()
}

func lastLine(s string) string {
	s = strings.TrimSpace(s)
	if i := strings.LastIndexByte(s, '\n'); i >= 0 {
		s = s[i+1:]
	}
	if len(s) > 400 {
		s = s[:400] + "…"
	}
	return s
}

func tailStr(s string, n int) string {
	if len(s) > n {
		return "…" + s[len(s)-n:]
	}
	return s
}
