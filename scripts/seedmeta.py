# Regenerates seeded/*/meta.json (rounds 2-4) from the result files of scripts/seed_matrix.sh / try_seed_wt.sh runs
# (directories in resdirs). Without result files the recorded outcome is kept.
import json,os,re,glob
info={
'C01b':('C01','Graph.Build keeps the wait on a done-channel only for the FIRST edge seen per (pool, value); edges are walked in breadth-first discovery order, statements are emitted in topological order, so the provider that runs EARLIER in the goroutine loses its wait','two providers of one goroutine share a value produced in another goroutine, the later-running one discovered first by the BFS; the goroutine must reach the earlier one before the producer returns'),
'C02b':('C02','NewGraph merges providerNodeMap/argNodeMap into one table keyed by type string and registers a new node under the first type of each result group and the looked-up key only: a Bind provider reached through its concrete type first gets a SECOND node when the interface is looked up','kessoku.Bind[I](p) with both the concrete type and I required, the concrete requirement reached first by the breadth-first walk (parameter order of the consumers)'),
'C03b':('C03','reverseEdges de-duplicated per provider while topologicalSortIter still decrements once per consumed argument: a consumer taking two arguments from one provider and a third from another is released early; later stages trust the order, giving a cyclic wait','a consumer with two arguments from one provider (multi-value results or one value twice) plus a third dependency emitted later in Kahn order that sits in another pool and transitively waits on the consumer\'s pool'),
'C04b':('C04','Parser.ParseFile caches the per-package MetaData (identifier scan + import table) per directory/package: the IsUsed flags of imports set while generating the first file are still set when the second file of the invocation is generated','one invocation with >= 2 files of one package that both contain Inject, an earlier file whose generated code uses an import a later file\'s does not'),
'C05b':('C05','collection.Queue re-implemented as a growable ring buffer whose grow() copies the slots verbatim and resets head: the queue loses FIFO order when it grows while wrapped (>= 8 queued)','>= 8 source nodes in the topological ready-queue, early-ready Async providers with dependencies in two pools, enough parameterless Async providers still queued behind them (11 providers, 9 pools)'),
'C06b':('C06','channelsWait routes the single-channel wait through the buildWaitStatement wrapper that hard-codes the identifier ctx; prelude and multi-channel waits use the real parameter name','context parameter not called ctx while a package-level ctx is in scope, a goroutine (not the caller) waiting on exactly one done-channel whose producer failed'),
'C07b':('C07','the statement generated for each Struct field read first waits on the struct\'s own done-channel (redundant: closed on the previous line) with the usual ctx-aware select: a new cancellation point in a chain that had none','Struct[*T] whose *T comes from an Async provider in a goroutine chain, *T consumed whole by one provider and a field by ANOTHER provider on the caller\'s thread, injector without error result, cancellation before/while the struct provider runs'),
'C08b':('C08','buildStmts picks the LONGEST ready async chain (not the first) to run inline on the caller\'s goroutine when there is no synchronous root: a fallible chain lands on the caller, whose error return neither cancels nor waits','every root Async, a ready chain strictly longer than the first one containing a fallible provider whose output another chain awaits; that provider fails'),
'C09b':('C09','extractExportedFields refuses a Struct with two exported fields of one type itself, but the error surfaces in findInjectDirectives, which only logs a warning and drops the declaration: exit 0, output written without it','two exported fields of one type within a single Struct[T]() expansion'),
'C10b':('C10','parseProviderType memoised per provider type (typeutil.Map); the Async/Bind wrapper cases mutate the inner result in place, so wrapping a provider once marks the bare provider type for every later declaration of the file','one file with >= 2 Inject declarations, an earlier one wrapping a provider (type) in Async or Bind, a later one using the same provider type bare'),
'C11b':('C11','processFile writes through a buffer into a file opened O_RDWR|O_CREATE without truncation: a longer previous output leaves its tail behind','an existing *_band.go that differs from and is longer than the new output (generate, shrink the input, generate again)'),
'C12b':('C12','reserved-word tables replaced by token.IsKeyword / types.Universe checks on the requested BASE name only and an initially empty pool: suffixed candidates that are predeclared (int8, uint16, float32, complex128) are no longer skipped','>= 9 requests for base int or uint (types named Int/Uint) within one invocation; a compile error only when the type int8 is also mentioned'),
'C13b':('C13','transformElements flattens inline wire.NewSet through the in-place filter idiom flat := elements[:0]: expanding an inline set of >= 2 elements overwrites the parent\'s not-yet-visited elements','an inline wire.NewSet with >= 2 elements followed by at least one more element in the parent, within the slice capacity'),
'C14b':('C14','merged FieldsOf providers are transformed up front by ranging over the map from mergeFieldsOf: import registration order changes (which namesake keeps the plain name) and depends on map order','two external packages with one name in the types of one set or Build, at least one through wire.FieldsOf'),
'C15b':('C15','InstallFile refactored so that os.Chmod runs AFTER the rename','a crash or I/O failure after the rename of a file and before/inside its chmod'),
'C16b':('C16','InstallFile returns early when the destination already has identical content (os.Stat + bytes.Equal): permission bits and symlinks of such files are left as they are','a previous installation whose files have the embedded content but not mode 0644 (or are symlinks to identical copies)'),
}
resdirs=['/tmp/seedres3','/tmp/seedres4','/tmp/seedres5']
for name,(prop,summary,needs) in info.items():
    d='/verif/seeded/'+name
    if not os.path.isdir(d): continue
    caught=[]
    fs=[os.path.join(rd,name+'.txt') for rd in resdirs if os.path.exists(os.path.join(rd,name+'.txt')) and os.path.getsize(os.path.join(rd,name+'.txt'))>0]
    if fs:
        cur=None; kinds={}
        for l in [l for f in fs for l in open(f)]:
            m=re.match(r'== seed=\S+ check=(\S+) exit=(\d+)',l)
            if m: cur=m.group(1); kinds.setdefault(cur,[]); ex=m.group(2); kinds[cur+':exit']=ex
            m=re.match(r'\s+kind=(\S+) site=(.*?) pre=',l)
            if m and cur: 
                k=m.group(1)
                if k not in kinds[cur]: kinds[cur].append(k)
        for c,ks in kinds.items():
            if c.endswith(':exit'): continue
            if kinds.get(c+':exit')=='1': caught.append('%s (%s)'%(c,', '.join(ks)))
    meta={'property':prop,'round':2,'summary':summary,'needs':needs,'caught_by':caught,
      'confirmed':'scripts/confirm_seed.sh: patch applies to a clean checkout of HEAD and touches no test; `go build ./... && go test -vet=off -count=1 ./...` passes with it; demo/run.sh exits non-zero with it and 0 without it (scratch worktree under /tmp, removed afterwards)',
      'how_checks_were_run':'scripts/try_seed_wt.sh <seed> <checks> (VERIF_REPO pointing at a scratch worktree of /repo with the patch applied; evidence of such runs goes to work/scratch-evidence)'}
    old=os.path.join(d,'meta.json')
    if os.path.exists(old):
        o=json.load(open(old))
        for k in ('missed_by_first','note','caught_by_note'):
            if k in o: meta[k]=o[k]
        if not caught and o.get('caught_by'):
            meta['caught_by']=o['caught_by']  # no result files at hand: keep what was recorded
    json.dump(meta,open(old,'w'),indent=1)
    print(name,caught)

info3={
'C01c':('C01','NewGraph copies the Struct provider\'s IsAsync onto the synthetic field accessors: the second accessor then takes the async branch of findOptimalPool and gets its own goroutine, but field reads never wait on the struct\'s channel','kessoku.Async(kessoku.Struct[T]()) with at least two consumed fields; the struct provider still running when the accessor goroutine starts'),
'C02c':('C02','ParseFile reserves the package-level identifiers once per package, remembered by package NAME: the identifiers of a second package with the same name in one invocation are never reserved, a generated local shadows one that a copied provider expression refers to','one generator run over two packages that share a name, the second declaring a package-level identifier equal to a name the allocator hands out, used in a kessoku.Value expression'),
'C03c':('C03','buildPoolStmtsSimple moves providers whose value another goroutine waits for ahead of the others within a pool, respecting only in-pool edges: two nodes of one pool ordered through another goroutine get swapped, giving a cyclic wait','a 9-provider shape: pool P with an in-pool chain a -> a2 (a2 awaited by c in pool Q) and b taking c, b awaited by a third goroutine, b\'s in-pool inputs before a'),
'C04c':('C04','VarPool.GetName/Get/GetChannel folded into one routine that no longer records a handed-out SUFFIXED name as taken: a later base name equal to it is issued a second time','a base name requested twice in one invocation and a type whose own base name is the suffixed name (Stage, Stage0), in that order'),
'C05c':('C05','findMaximumAntichainSize counts the matching where matchR is written: a search that re-routes an existing match counts twice, too few pools are allocated and two parameterless Async providers share a goroutine','a provider feeding two consumers enumerated before another provider feeding the first of them (parameter order), and no slack in the pool count (no arguments, no parameterless sync providers)'),
'C06c':('C06','the parser recognises the error result with a new isErrorType helper that asserts *types.Named: an error declared through an alias (type Failure = error) is filed as an unused value, the call is emitted without error check','a fallible provider whose error result is spelled through an alias, another provider with a plain error, that provider failing'),
'C07c':('C07','channelsWait lets the wait in front of a provider call watch the context.Context argument of THAT call instead of the errgroup-derived context','the context dependency supplied by a provider (so the injector holds ctx and ctx0), a provider taking it that waits on a done-channel, cancellation while the producing goroutine is parked in its own ctx-aware wait'),
'C08c':('C08','topologicalSortIter stable-sorts every batch of simultaneously ready nodes so that fallible synchronous providers go first: a fallible call moves ahead of an infallible provider whose value goroutines wait for; the caller\'s bare error return then leaves them parked','goroutines waiting for a value of an infallible sync provider C on the caller, a fallible sync provider E ready in the same batch but discovered after C, E failing'),
'C09c':('C09','parseProviderType memoised with a shallow copy; the Bind branch appends the interface to the shared Provides slice, so every plain Provide of that provider type in the file also supplies the interface: a sibling declaration with another supplier of it is refused','one file with >= 2 declarations, one wrapping a provider type in Bind[I], another using it bare next to a different supplier of I'),
'C10c':('C10','NewGraph keys function providers and requirements by types.Unalias(t).String() while struct field expansion still registers the raw string: a field whose type is a top-level alias is no longer found and becomes an injector parameter','Struct[T] with an exported field of an alias type (type Timeout = time.Duration) required by a needed provider'),
'C11c':('C11','the four "register an import no source file has" sites folded into one helper that omits the import name only when it equals the last path element; the import scan of ParseFile (which also reads the previous *_band.go) keeps the old rule: fresh and repeated generation spell the import differently','a dependency type from a package whose name differs from the last element of its path (/vN), imported by no source file of the injector\'s package; compare a run without and with a previous output'),
'C12c':('C12','done-channel names derived as <variable>Ch and merely claimed in the pool instead of being requested from it: an existing xCh (type XCh named earlier, package-level identifier) collides','an async injector in which a variable x needs a done-channel while xCh is already taken'),
'C13c':('C13','CollectExprImports records renames in a map instead of renaming identifiers in place; Writer.exprWithPos does not rebuild nested call arguments, composite literals, binary expressions: references inside them keep the old package name','two wire files of one package importing different packages under one name, the later file referring to its package inside a nested expression (InterfaceValue value, wire.Value(2*pkg.X))'),
'C14c':('C14','Writer.Write replaces os.WriteFile by an open without O_TRUNC + fsync: a longer previous output keeps its tail','the output path holds a longer file of an earlier migration (configuration shrank)'),
'C15c':('C15','the staging file gets a fixed per-directory name opened O_RDWR|O_CREATE without O_TRUNC: a leftover of an interrupted run keeps its length and the next, shorter file staged there keeps its tail','the installer dies while a longer file is staged in a directory where a shorter file is staged first by the next run'),
'C16c':('C16','ValidatePath switches to Lstat + Readlink + Stat of the raw link text: a relative link target is resolved against the working directory instead of the link\'s directory, a valid base is rejected as dangling','the last component of the base is a symbolic link with a relative target to an existing directory'),
}
resdirs=['/tmp/seedres3','/tmp/seedres4','/tmp/seedres5']
for name,(prop,summary,needs) in info3.items():
    d='/verif/seeded/'+name
    if not os.path.isdir(d): continue
    caught=[]
    fs=[os.path.join(rd,name+'.txt') for rd in resdirs if os.path.exists(os.path.join(rd,name+'.txt')) and os.path.getsize(os.path.join(rd,name+'.txt'))>0]
    if fs:
        cur=None; kinds={}
        for l in [l for f in fs for l in open(f)]:
            m=re.match(r'== seed=\S+ check=(\S+) exit=(\d+)',l)
            if m: cur=m.group(1); kinds.setdefault(cur,[]); kinds[cur+':exit']=m.group(2)
            m=re.match(r'\s+kind=(\S+) site=(.*?) pre=',l)
            if m and cur:
                k=m.group(1)
                if k not in kinds[cur]: kinds[cur].append(k)
        for c,ks in kinds.items():
            if c.endswith(':exit'): continue
            if kinds.get(c+':exit')=='1': caught.append('%s (%s)'%(c,', '.join(ks)))
    meta={'property':prop,'round':3,'summary':summary,'needs':needs,'caught_by':caught,
      'confirmed':'scripts/confirm_seed.sh: patch applies to a clean checkout of HEAD and touches no test; `go build ./... && go test -vet=off -count=1 ./...` passes with it; demo/run.sh exits non-zero with it and 0 without it (scratch worktree under /tmp, removed afterwards)',
      'how_checks_were_run':'scripts/try_seed_wt.sh <seed> <checks> (VERIF_REPO pointing at a scratch worktree of /repo with the patch applied; evidence of such runs goes to work/scratch-evidence)'}
    old=os.path.join(d,'meta.json')
    if os.path.exists(old):
        o=json.load(open(old))
        for k in ('missed_by_first','note','caught_by_note'):
            if k in o: meta[k]=o[k]
        if not caught and o.get('caught_by'):
            meta['caught_by']=o['caught_by']  # no result files at hand: keep what was recorded
    json.dump(meta,open(old,'w'),indent=1)
    print(name,caught)

info4={
'C02d':('C02','(same mechanism as C01c, found independently) NewGraph copies the Struct provider\'s IsAsync onto the field accessors: the second accessor runs in its own goroutine without waiting for the struct','kessoku.Async(kessoku.Struct[T]()) with two needed fields feeding different providers, the struct provider slower than the accessor goroutine'),
'C03d':('C03','fnProvider.returnIndex becomes a running slot number over every provided type and node.returnValues lists a variable once per type it is provided as: the channel-close statement of a Bind provider closes the same done-channel twice','a kessoku.Bind provider whose value is consumed in another goroutine (it owns a done-channel); fails in every schedule'),
'C05d':('C05','the bindProvider case of parseProviderType returns a freshly built result that forwards every field except IsAsync: Bind[I](Async(Provide(f))) becomes synchronous','the nesting Bind(Async(..)) (not Async(Bind(..))) on a parameterless provider next to another parameterless Async provider'),
'C07d':('C07','(same mechanism as C08b) the longest ready pool runs inline on the caller when every root is Async: pool 0 and its joins become a goroutine chain with ctx-aware waits','injector without error result, all roots Async, a ready pool strictly longer than pool 0, cancellation before the long pool published its value'),
'C08d':('C08','(same change as C05d) Bind[I](Async(Provide(f))) loses IsAsync: a fallible f moves onto the caller\'s goroutine, whose error return neither cancels nor waits','Bind(Async(..)) on a fallible provider, another goroutine waiting for a value computed after it, the provider failing'),
'C09d':('C09','initializePackages deletes a previous *_band.go that carries the generated-code marker and no longer type-checks, before the graph is checked: a refused run removes the existing output','an earlier successful generation, then an edit that both breaks the old output\'s types and makes the declaration unsatisfiable'),
'C10d':('C10','the loaded package is cached per directory for the whole invocation: a later file is analysed against the snapshot taken before the earlier file\'s output was rewritten','kessoku a.go b.go where b.go uses the injector generated from a.go as a provider and that injector\'s signature changed since the last generation'),
'C13d':('C13','FieldsOf accessors are remembered in a Transformer field that is reset per FILE, not per declaration: a later set\'s FieldsOf on the same struct is merged into an earlier, unrelated set\'s accessor','two top-level sets in one file with wire.FieldsOf on one struct (other fields), an injector that uses the later set only'),
}
for name,(prop,summary,needs) in info4.items():
    d='/verif/seeded/'+name
    if not os.path.isdir(d): continue
    caught=[]
    fs=[os.path.join(rd,name+'.txt') for rd in resdirs if os.path.exists(os.path.join(rd,name+'.txt')) and os.path.getsize(os.path.join(rd,name+'.txt'))>0]
    if fs:
        cur=None; kinds={}
        for l in [l for f in fs for l in open(f)]:
            m=re.match(r'== seed=\S+ check=(\S+) exit=(\d+)',l)
            if m: cur=m.group(1); kinds.setdefault(cur,[]); kinds[cur+':exit']=m.group(2)
            m=re.match(r'\s+kind=(\S+) site=(.*?) pre=',l)
            if m and cur:
                k=m.group(1)
                if k not in kinds[cur]: kinds[cur].append(k)
        for c,ks in kinds.items():
            if c.endswith(':exit'): continue
            if kinds.get(c+':exit')=='1': caught.append('%s (%s)'%(c,', '.join(ks)))
    meta={'property':prop,'round':4,'summary':summary,'needs':needs,'caught_by':caught,
      'confirmed':'scripts/confirm_seed.sh (patch applies to HEAD and touches no test; suite green with it; demonstration fails with it and passes without)',
      'how_checks_were_run':'scripts/try_seed_wt.sh / scripts/seed_matrix.sh'}
    old=os.path.join(d,'meta.json')
    if os.path.exists(old):
        o=json.load(open(old))
        if not caught and o.get('caught_by'):
            meta['caught_by']=o['caught_by']
        for k in ('note','caught_by_note'):
            if k in o: meta[k]=o[k]
    json.dump(meta,open(old,'w'),indent=1)
    print(name,caught)
