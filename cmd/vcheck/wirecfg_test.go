package main

import (
	"go/parser"
	"go/token"
	"testing"
)

// The generator of the wire universe is itself checked cheaply: shape counts, unique witnesses, and
// every emitted source file parses (the real tools then decide everything else).
func TestWireUniverseEmitsParseableGo(t *testing.T) {
	if n := len(shapes(3)); n != 3 {
		t.Fatalf("n=3 has chain, fan-in and diamond: got %d shapes", n)
	}
	cfgs, rule := wireUniverse("quick")
	if len(cfgs) < 1000 || rule == "" {
		t.Fatalf("quick universe: %d configurations", len(cfgs))
	}
	seen := map[string]bool{}
	fset := token.NewFileSet()
	for _, c := range cfgs {
		if seen[c.Spec()] {
			t.Fatalf("duplicate witness %s", c.Spec())
		}
		seen[c.Spec()] = true
		files := c.WireFiles("p")
		files["providers.go"] = c.ProvidersSrc("p")
		for name, src := range files {
			if _, err := parser.ParseFile(fset, name, src, 0); err != nil {
				t.Fatalf("%s: %s does not parse: %v\n%s", c.Spec(), name, err, src)
			}
		}
		for _, p := range c.injectorParams() {
			if _, ok := c.argExpr(p.Type); !ok {
				t.Fatalf("%s: no symbolic argument for %s", c.Spec(), p.Type)
			}
		}
	}
	for _, p := range append(extPrograms(false), invalidPrograms()...) {
		if p.Invalid != "" {
			continue
		}
		for _, files := range p.Dirs {
			for name, src := range files {
				if _, err := parser.ParseFile(fset, name, src, 0); err != nil {
					t.Fatalf("%s: %s does not parse: %v\n%s", p.Name, name, err, src)
				}
			}
		}
	}
}
