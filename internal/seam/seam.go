// Package seam owns one source of process-level nondeterminism: Go map iteration order. It
// type-checks packages of the working tree, finds every `range` over a map, and produces a build
// overlay in which those loops iterate over verifseam.Keys(site, m) instead. The seam logs which
// (site, occurrence, size) triples an execution reaches and applies a permutation chosen by the
// environment, so that a driver can enumerate ALL iteration orders of every reached site.
package seam

import (
	"bytes"
	"encoding/json"
	"fmt"
	"go/ast"
	"go/importer"
	"go/parser"
	"go/token"
	"go/types"
	"io"
	"os"
	"os/exec"
	"path/filepath"
	"sort"
	"strings"
)

const seamSrc = `//go:build verif

// Package verifseam is added by build overlay only (tag verif).
package verifseam

import (
	"fmt"
	"os"
	"reflect"
	"sort"
	"strconv"
	"strings"
	"sync"
)

var (
	mu  sync.Mutex
	occ = map[string]int{}
)

// Keys returns the keys of m in the runtime's order with the permutation selected by
// VERIF_SEAM="site:occurrence:i0,i1,..." applied on top, and logs the visit to VERIF_SEAM_LOG.
func Keys[K comparable, V any](site string, m map[K]V) []K {
	keys := make([]K, 0, len(m))
	for k := range m {
		keys = append(keys, k)
	}
	// canonical base order when the key type has one (strings, integers): then applying all k!
	// permutations enumerates all k! iteration orders. Other key types (pointers) keep the
	// runtime's order and are logged as unsortable.
	sortable := true
	var zero K
	kind := reflect.Invalid
	if t := reflect.TypeOf(zero); t != nil {
		kind = t.Kind()
	}
	switch kind {
	case reflect.String:
		sort.Slice(keys, func(i, j int) bool { return reflect.ValueOf(keys[i]).String() < reflect.ValueOf(keys[j]).String() })
	case reflect.Int, reflect.Int8, reflect.Int16, reflect.Int32, reflect.Int64:
		sort.Slice(keys, func(i, j int) bool { return reflect.ValueOf(keys[i]).Int() < reflect.ValueOf(keys[j]).Int() })
	case reflect.Uint, reflect.Uint8, reflect.Uint16, reflect.Uint32, reflect.Uint64:
		sort.Slice(keys, func(i, j int) bool { return reflect.ValueOf(keys[i]).Uint() < reflect.ValueOf(keys[j]).Uint() })
	default:
		sortable = false
	}
	mu.Lock()
	n := occ[site]
	occ[site] = n + 1
	mu.Unlock()
	if p := os.Getenv("VERIF_SEAM_LOG"); p != "" {
		if f, err := os.OpenFile(p, os.O_APPEND|os.O_CREATE|os.O_WRONLY, 0o644); err == nil {
			fmt.Fprintf(f, "%s %d %d %v\n", site, n, len(keys), sortable)
			f.Close()
		}
	}
	if spec := os.Getenv("VERIF_SEAM"); spec != "" {
		parts := strings.SplitN(spec, ":", 3)
		if len(parts) == 3 && parts[0] == site && parts[1] == strconv.Itoa(n) {
			idx := strings.Split(parts[2], ",")
			if len(idx) == len(keys) {
				out := make([]K, len(keys))
				for i, s := range idx {
					j, _ := strconv.Atoi(s)
					out[i] = keys[j]
				}
				if p := os.Getenv("VERIF_SEAM_LOG"); p != "" {
					if f, err := os.OpenFile(p, os.O_APPEND|os.O_CREATE|os.O_WRONLY, 0o644); err == nil {
						fmt.Fprintf(f, "APPLIED %s\n", spec)
						f.Close()
					}
				}
				return out
			}
		}
	}
	return keys
}
`

// Site is one rewritten loop.
type Site struct {
	ID   string `json:"id"`
	File string `json:"file"`
	Line int    `json:"line"`
	Expr string `json:"expr"`
}

type Overlay struct {
	Replace map[string]string
	Sites   []Site
	Skipped []string // map ranges the rewriter could not route (reported, never guessed)
}

// exportLookup builds an importer from `go list -export -deps`.
func exportLookup(goBin, repo string, env []string, pkgs []string) (types.Importer, *token.FileSet, error) {
	args := append([]string{"list", "-export", "-deps", "-f", "{{.ImportPath}}\t{{.Export}}"}, pkgs...)
	cmd := exec.Command(goBin, args...)
	cmd.Dir = repo
	cmd.Env = env
	var stderr bytes.Buffer
	cmd.Stderr = &stderr
	out, err := cmd.Output()
	if err != nil {
		return nil, nil, fmt.Errorf("go list -export: %v\n%s", err, stderr.String())
	}
	exports := map[string]string{}
	for _, l := range strings.Split(string(out), "\n") {
		f := strings.SplitN(l, "\t", 2)
		if len(f) == 2 && f[1] != "" {
			exports[f[0]] = f[1]
		}
	}
	fset := token.NewFileSet()
	imp := importer.ForCompiler(fset, "gc", func(path string) (io.ReadCloser, error) {
		p, ok := exports[path]
		if !ok {
			return nil, fmt.Errorf("no export data for %s", path)
		}
		return os.Open(p)
	})
	return imp, fset, nil
}

// Build writes rewritten copies of the packages' files into outDir and returns the overlay.
// pkgDirs are directories relative to repo (e.g. "internal/kessoku"); modulePath is the module's path.
func Build(goBin, repo string, env []string, modulePath string, pkgDirs []string, outDir string) (*Overlay, error) {
	var pats []string
	for _, d := range pkgDirs {
		pats = append(pats, "./"+d)
	}
	imp, fset, err := exportLookup(goBin, repo, env, pats)
	if err != nil {
		return nil, err
	}
	ov := &Overlay{Replace: map[string]string{}}
	if err := os.MkdirAll(outDir, 0o755); err != nil {
		return nil, err
	}
	seamPath := filepath.Join(outDir, "verifseam.go")
	if err := os.WriteFile(seamPath, []byte(seamSrc), 0o644); err != nil {
		return nil, err
	}
	ov.Replace[filepath.Join(repo, "internal", "verifseam", "seam.go")] = seamPath
	for _, d := range pkgDirs {
		dir := filepath.Join(repo, d)
		ents, err := os.ReadDir(dir)
		if err != nil {
			return nil, err
		}
		var files []*ast.File
		var names []string
		srcs := map[string][]byte{}
		for _, e := range ents {
			n := e.Name()
			if e.IsDir() || !strings.HasSuffix(n, ".go") || strings.HasSuffix(n, "_test.go") {
				continue
			}
			p := filepath.Join(dir, n)
			src, err := os.ReadFile(p)
			if err != nil {
				return nil, err
			}
			f, err := parser.ParseFile(fset, p, src, parser.ParseComments)
			if err != nil {
				return nil, err
			}
			if hasBuildTag(f, "verif") {
				continue
			}
			files = append(files, f)
			names = append(names, p)
			srcs[p] = src
		}
		info := &types.Info{Types: map[ast.Expr]types.TypeAndValue{}}
		conf := types.Config{Importer: imp, Error: func(error) {}}
		if _, err := conf.Check(modulePath+"/"+d, fset, files, info); err != nil {
			// keep going: partial type information is enough to recognise map ranges
			_ = err
		}
		for i, f := range files {
			p := names[i]
			type edit struct {
				start, end int
				text       string
			}
			var edits []edit
			ast.Inspect(f, func(n ast.Node) bool {
				rs, ok := n.(*ast.RangeStmt)
				if !ok {
					return true
				}
				tv, ok := info.Types[rs.X]
				if !ok || tv.Type == nil {
					return true
				}
				if _, isMap := tv.Type.Underlying().(*types.Map); !isMap {
					return true
				}
				pos := fset.Position(rs.Pos())
				x := string(srcs[p][fset.Position(rs.X.Pos()).Offset:fset.Position(rs.X.End()).Offset])
				if !simpleExpr(rs.X) {
					ov.Skipped = append(ov.Skipped, fmt.Sprintf("%s:%d range over %s (not a simple expression)", d+"/"+filepath.Base(p), pos.Line, x))
					return true
				}
				if rs.Key == nil {
					return true // `for range m`: order is unobservable
				}
				site := fmt.Sprintf("%s#%d", filepath.Base(p), pos.Line)
				key := exprText(srcs[p], fset, rs.Key)
				tok := ":="
				if rs.Tok == token.ASSIGN {
					tok = "="
				}
				var hdr strings.Builder
				kname := key
				if key == "_" {
					kname = "verifk__"
					tok = ":="
				}
				if rs.Tok == token.ASSIGN && key != "_" {
					// keys assigned to an existing variable
					fmt.Fprintf(&hdr, "for _, verifk__ := range verifseam.Keys(%q, %s) {\n%s = verifk__\n", site, x, key)
					kname = key
				} else {
					fmt.Fprintf(&hdr, "for _, %s := range verifseam.Keys(%q, %s) {\n", kname, site, x)
				}
				if rs.Value != nil {
					val := exprText(srcs[p], fset, rs.Value)
					if val != "_" {
						fmt.Fprintf(&hdr, "%s %s (%s)[%s]\n", val, tok, x, kname)
					}
				}
				start := fset.Position(rs.Pos()).Offset
				end := fset.Position(rs.Body.Lbrace).Offset + 1
				edits = append(edits, edit{start, end, hdr.String()})
				ov.Sites = append(ov.Sites, Site{ID: site, File: d + "/" + filepath.Base(p), Line: pos.Line, Expr: x})
				return true
			})
			if len(edits) == 0 {
				continue
			}
			sort.Slice(edits, func(a, b int) bool { return edits[a].start > edits[b].start })
			src := append([]byte(nil), srcs[p]...)
			for _, e := range edits {
				src = append(src[:e.start], append([]byte(e.text), src[e.end:]...)...)
			}
			// add the import after the package clause
			pkgEnd := fset.Position(f.Name.End()).Offset
			src = append(src[:pkgEnd], append([]byte("\n\nimport \""+modulePath+"/internal/verifseam\"\n"), src[pkgEnd:]...)...)
			outp := filepath.Join(outDir, strings.ReplaceAll(d, "/", "_")+"_"+filepath.Base(p))
			if err := os.WriteFile(outp, src, 0o644); err != nil {
				return nil, err
			}
			ov.Replace[p] = outp
		}
	}
	return ov, nil
}

func hasBuildTag(f *ast.File, tag string) bool {
	for _, cg := range f.Comments {
		if cg.Pos() > f.Package {
			break
		}
		for _, c := range cg.List {
			if strings.HasPrefix(c.Text, "//go:build") && strings.Contains(c.Text, tag) {
				return true
			}
		}
	}
	return false
}

func exprText(src []byte, fset *token.FileSet, e ast.Expr) string {
	return string(src[fset.Position(e.Pos()).Offset:fset.Position(e.End()).Offset])
}

func simpleExpr(e ast.Expr) bool {
	switch x := e.(type) {
	case *ast.Ident:
		return true
	case *ast.SelectorExpr:
		return simpleExpr(x.X)
	case *ast.IndexExpr:
		return simpleExpr(x.X) && simpleExpr(x.Index)
	case *ast.ParenExpr:
		return simpleExpr(x.X)
	case *ast.StarExpr:
		return simpleExpr(x.X)
	}
	return false
}

// WriteJSON writes the overlay file for go build -overlay.
func (o *Overlay) WriteJSON(path string) error {
	b, _ := json.Marshal(map[string]any{"Replace": o.Replace})
	return os.WriteFile(path, b, 0o644)
}

// Permutations returns all permutations of k elements (k <= 4) or, for larger k, the identity,
// the reversal and all transpositions (reported as not exhaustive by the caller).
func Permutations(k int) (perms [][]int, exhaustive bool) {
	id := make([]int, k)
	for i := range id {
		id[i] = i
	}
	if k <= 1 {
		return [][]int{id}, true
	}
	if k <= 4 {
		var rec func(cur []int, used uint)
		rec = func(cur []int, used uint) {
			if len(cur) == k {
				perms = append(perms, append([]int(nil), cur...))
				return
			}
			for i := 0; i < k; i++ {
				if used&(1<<i) == 0 {
					rec(append(cur, i), used|1<<i)
				}
			}
		}
		rec(nil, 0)
		return perms, true
	}
	perms = append(perms, id)
	rev := make([]int, k)
	for i := range rev {
		rev[i] = k - 1 - i
	}
	perms = append(perms, rev)
	for i := 0; i < k; i++ {
		for j := i + 1; j < k; j++ {
			p := append([]int(nil), id...)
			p[i], p[j] = p[j], p[i]
			perms = append(perms, p)
		}
	}
	return perms, false
}
