# Source this: pins the Go toolchain the repository's own suite uses (go1.25.5, from the module cache), fully offline.
export VERIF_GOROOT_BIN=/root/go/pkg/mod/golang.org/toolchain@v0.0.1-go1.25.5.linux-amd64/bin
export PATH="$VERIF_GOROOT_BIN:$PATH"
export GOTOOLCHAIN=local GOSUMDB=off GOPROXY=off GOFLAGS=-mod=mod
export CGO_ENABLED=0
