// Package pipe builds everything a check needs from /repo's current working tree: the kessoku
// CLI, the declaration corpus, the generated injectors, their instrumented copies and the runner
// binary. Build products are keyed by a content hash of the tree (and of verif's own sources), so
// checks that run back-to-back on the same tree share them, and any edit to /repo rebuilds them.
package pipe

import (
	"bytes"
	"crypto/sha256"
	"encoding/hex"
	"fmt"
	"hash"
	"io/fs"
	"os"
	"os/exec"
	"path/filepath"
	"regexp"
	"sort"
	"strings"
	"sync"
	"syscall"
	"time"
)

const (
	VerifRoot = "/verif"
	RepoRoot  = "/repo"
	goBinDir  = "/root/go/pkg/mod/golang.org/toolchain@v0.0.1-go1.25.5.linux-amd64/bin"
	// GoBin is the go command of the toolchain the repository's own suite runs with.
	GoBin = goBinDir + "/go"
)

// MachHash is set at link time (scripts/build.sh).
var MachHash string

type Env struct {
	Hash    string
	Work    string // /verif/work/<hash>
	Kessoku string // built CLI
	Start   time.Time
	SyncVer string // golang.org/x/sync version of /repo/go.mod
}

func RepoDir() string {
	if d := os.Getenv("VERIF_REPO"); d != "" {
		return d
	}
	return RepoRoot
}

// GoEnv is the environment for every go invocation outside /repo's workspace.
func GoEnv(extra ...string) []string {
	env := []string{}
	for _, kv := range os.Environ() {
		k := kv[:strings.IndexByte(kv+"=", '=')]
		switch k {
		case "GOFLAGS", "GOTOOLCHAIN", "GOSUMDB", "GOPROXY", "PATH", "GOWORK", "CGO_ENABLED", "GO111MODULE", "GOMAXPROCS":
			continue
		}
		env = append(env, kv)
	}
	env = append(env,
		"PATH="+goBinDir+":"+os.Getenv("PATH"),
		"GOTOOLCHAIN=local", "GOSUMDB=off", "GOPROXY=off", "GOFLAGS=-mod=mod", "CGO_ENABLED=0", "GOWORK=off")
	return append(env, extra...)
}

// RepoGoEnv is the environment for go invocations rooted in /repo (workspace mode: no -mod flag).
func RepoGoEnv(extra ...string) []string {
	env := GoEnv()
	out := env[:0]
	for _, kv := range env {
		if strings.HasPrefix(kv, "GOFLAGS=") || strings.HasPrefix(kv, "GOWORK=") {
			continue
		}
		out = append(out, kv)
	}
	out = append(out, "GOFLAGS=")
	return append(out, extra...)
}

func hashTree(h hash.Hash, root string, want func(rel string, d fs.DirEntry) bool) {
	var files []string
	_ = filepath.WalkDir(root, func(p string, d fs.DirEntry, err error) error {
		if err != nil {
			return nil
		}
		rel, _ := filepath.Rel(root, p)
		if d.IsDir() {
			if rel != "." && (strings.HasPrefix(d.Name(), ".") || d.Name() == "work" || d.Name() == "evidence" || d.Name() == "node_modules") {
				return filepath.SkipDir
			}
			return nil
		}
		if want(rel, d) {
			files = append(files, rel)
		}
		return nil
	})
	sort.Strings(files)
	for _, f := range files {
		b, err := os.ReadFile(filepath.Join(root, f))
		if err != nil {
			continue
		}
		fmt.Fprintf(h, "%s\x00%d\x00", f, len(b))
		h.Write(b)
	}
}

// TreeHash hashes /repo's sources (everything that can influence the built CLI or the examples) and
// verif's own machinery (the running binary).
func TreeHash() string {
	h := sha256.New()
	hashTree(h, RepoDir(), func(rel string, d fs.DirEntry) bool {
		if strings.HasSuffix(rel, "_band.go") && strings.HasPrefix(rel, "examples/") {
			return true
		}
		switch filepath.Ext(rel) {
		case ".go", ".mod", ".sum", ".work", ".md", ".tmpl", ".txt", ".json", ".yaml", ".yml":
			return true
		}
		return strings.Contains(rel, "/skills/")
	})
	// verif's own machinery: MachHash is the hash of the corpus-relevant sources, stamped into the
	// binary by scripts/build.sh; without it, the running binary itself is hashed.
	if MachHash != "" {
		h.Write([]byte(MachHash))
	} else if exe, err := os.Executable(); err == nil {
		if b, err := os.ReadFile(exe); err == nil {
			sum := sha256.Sum256(b)
			h.Write(sum[:])
		}
	}
	return hex.EncodeToString(h.Sum(nil))[:16]
}

var setupOnce sync.Once
var theEnv *Env

// Setup computes the tree hash, prepares the work directory, prunes stale ones and builds the CLI.
func Setup() *Env {
	setupOnce.Do(func() {
		e := &Env{Hash: TreeHash(), Start: time.Now()}
		e.Work = filepath.Join(VerifRoot, "work", e.Hash)
		must(os.MkdirAll(filepath.Join(e.Work, "bin"), 0o755))
		// nested-module marker: keeps generated Go files under work/ out of module verif
		if _, err := os.Stat(filepath.Join(VerifRoot, "work", "go.mod")); err != nil {
			_ = os.WriteFile(filepath.Join(VerifRoot, "work", "go.mod"), []byte("module verifwork\n\ngo 1.25.5\n"), 0o644)
		}
		// prune other tree hashes (keep disk bounded)
		if ents, err := os.ReadDir(filepath.Join(VerifRoot, "work")); err == nil {
			for _, en := range ents {
				if en.IsDir() && en.Name() != e.Hash && !strings.HasPrefix(en.Name(), "keep-") {
					// only prune directories not touched for 90 minutes (a concurrent check on another tree may be using them)
					if info, err := en.Info(); err == nil && time.Since(info.ModTime()) > 90*time.Minute {
						_ = os.RemoveAll(filepath.Join(VerifRoot, "work", en.Name()))
					}
				}
			}
		}
		holdBulkCache()
		e.Kessoku = filepath.Join(e.Work, "bin", "kessoku")
		e.SyncVer = syncVersion()
		unlock := e.Lock("build-cli")
		if _, err := os.Stat(e.Kessoku); err != nil {
			tmp := e.Kessoku + fmt.Sprintf(".tmp%d", os.Getpid())
			cmd := exec.Command(GoBin, "build", "-buildvcs=false", "-o", tmp, "./cmd/kessoku")
			cmd.Dir = RepoDir()
			cmd.Env = RepoGoEnv()
			out, err := cmd.CombinedOutput()
			if err != nil {
				unlock()
				fmt.Printf("BUILD-FAILED: kessoku CLI does not build from the working tree:\n%s\n", out)
				os.Exit(2)
			}
			must(os.Rename(tmp, e.Kessoku))
		}
		unlock()
		theEnv = e
	})
	return theEnv
}

func syncVersion() string {
	b, err := os.ReadFile(filepath.Join(RepoDir(), "go.mod"))
	if err == nil {
		if m := regexp.MustCompile(`golang\.org/x/sync\s+(v[0-9A-Za-z.\-+]+)`).FindSubmatch(b); m != nil {
			return string(m[1])
		}
	}
	return "v0.19.0"
}

func must(err error) {
	if err != nil {
		panic(err)
	}
}

// MaintainBulkCache is called before a bulk build.
func MaintainBulkCache() { maintainBulkCache() }

// Lock takes an inter-process lock (mkdir based) inside the work directory.
func (e *Env) Lock(name string) func() {
	p := filepath.Join(e.Work, "lock-"+name)
	for i := 0; ; i++ {
		if err := os.Mkdir(p, 0o755); err == nil {
			break
		}
		if info, err := os.Stat(p); err == nil && time.Since(info.ModTime()) > 30*time.Minute {
			_ = os.Remove(p)
			continue
		}
		time.Sleep(200 * time.Millisecond)
	}
	return func() { _ = os.Remove(p) }
}

// BulkCache is a Go build cache used only for the bulk compilation of throw-away corpus packages
// (thousands of unique packages per tree hash would otherwise grow the user's cache by gigabytes
// per run). It is reset when it has served several corpus builds or when disk space runs low.
var BulkCache = filepath.Join(VerifRoot, "work", "gocache")

var bulkLock *os.File

// holdBulkCache takes a shared advisory lock for the life of the process: a reset of the bulk cache
// needs the exclusive lock, so it never happens under a check that is still building from it.
func holdBulkCache() {
	if bulkLock != nil {
		return
	}
	_ = os.MkdirAll(filepath.Join(VerifRoot, "work"), 0o755)
	f, err := os.OpenFile(filepath.Join(VerifRoot, "work", "gocache.lock"), os.O_CREATE|os.O_RDWR, 0o644)
	if err != nil {
		return
	}
	if syscall.Flock(int(f.Fd()), syscall.LOCK_SH) == nil {
		bulkLock = f
	}
}

func maintainBulkCache() {
	holdBulkCache()
	if bulkLock != nil {
		// upgrade to exclusive without blocking; if another check holds the cache, do not reset now
		if err := syscall.Flock(int(bulkLock.Fd()), syscall.LOCK_EX|syscall.LOCK_NB); err != nil {
			_ = syscall.Flock(int(bulkLock.Fd()), syscall.LOCK_SH)
			_ = os.MkdirAll(BulkCache, 0o755)
			return
		}
		defer syscall.Flock(int(bulkLock.Fd()), syscall.LOCK_SH)
	}
	uses := filepath.Join(BulkCache, ".uses")
	n := 0
	if b, err := os.ReadFile(uses); err == nil {
		fmt.Sscanf(string(b), "%d", &n)
	}
	var st syscall.Statfs_t
	low := false
	if err := syscall.Statfs(VerifRoot, &st); err == nil {
		low = st.Bavail*uint64(st.Bsize) < 60<<30
	}
	if n >= 4 || low {
		_ = os.RemoveAll(BulkCache)
		n = 0
	}
	if low {
		// the user's own build cache (CLI, overlay and wire builds of many tree hashes end up there) is trimmed
		// too when space runs low; we hold the exclusive lock, so no other check is building right now
		cmd := exec.Command(GoBin, "clean", "-cache")
		cmd.Env = GoEnv()
		_ = cmd.Run()
	}
	_ = os.MkdirAll(BulkCache, 0o755)
	_ = os.WriteFile(uses, []byte(fmt.Sprint(n+1)), 0o644)
}

// CLICache is the build cache handed to the generator CLI (its package loader compiles export data for every
// package it loads). It is private to the process; ResetCLICache empties it, CleanupCLICache removes it.
func CLICache() string {
	return filepath.Join(VerifRoot, "work", fmt.Sprintf("clicache-%d", os.Getpid()))
}


// ResetCLICache empties the CLI cache. Callers make sure no CLI run is in flight.
func ResetCLICache() { _ = os.RemoveAll(CLICache()) }

// CleanupCLICache removes this process's CLI cache and those of processes that are gone.
func CleanupCLICache() {
	_ = os.RemoveAll(CLICache())
	ents, _ := os.ReadDir(filepath.Join(VerifRoot, "work"))
	for _, e := range ents {
		var pid int
		if n, _ := fmt.Sscanf(e.Name(), "clicache-%d", &pid); n == 1 && pid != os.Getpid() {
			if err := syscall.Kill(pid, 0); err != nil {
				_ = os.RemoveAll(filepath.Join(VerifRoot, "work", e.Name()))
			}
		}
	}
}

// BulkGoEnv is GoEnv with the bulk build cache.
func BulkGoEnv(extra ...string) []string {
	return append(GoEnv("GOCACHE="+BulkCache), extra...)
}

// RunGo runs the go tool in dir (outside /repo's workspace) with the bulk build cache.
func RunGo(dir string, args ...string) ([]byte, error) {
	cmd := exec.Command(GoBin, args...)
	cmd.Dir = dir
	cmd.Env = BulkGoEnv()
	var buf bytes.Buffer
	cmd.Stdout = &buf
	cmd.Stderr = &buf
	err := cmd.Run()
	return buf.Bytes(), err
}

// Parallel runs fn(i) for i in [0,n) on all cores.
func Parallel(n int, workers int, fn func(i int)) {
	if workers <= 0 {
		workers = 16
	}
	var wg sync.WaitGroup
	ch := make(chan int)
	for w := 0; w < workers; w++ {
		wg.Add(1)
		go func() {
			defer wg.Done()
			for i := range ch {
				fn(i)
			}
		}()
	}
	for i := 0; i < n; i++ {
		ch <- i
	}
	close(ch)
	wg.Wait()
}

// RepoStatus returns `git status --porcelain` of /repo (checks assert they leave it unchanged).
func RepoStatus() string {
	cmd := exec.Command("git", "-C", RepoDir(), "status", "--porcelain")
	out, _ := cmd.Output()
	return string(out)
}
