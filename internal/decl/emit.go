package decl

import (
	"fmt"
	"sort"
	"strings"
)

// GoType spells an IR type in Go.
func GoType(t string) string {
	if t == "ctx" {
		return "context.Context"
	}
	return t
}

func base(t string) string { return strings.TrimPrefix(t, "*") }

// TermExpr is the Go expression that yields the symbolic term carried by expression x of IR type t.
func TermExpr(t, x string) string {
	switch {
	case t == "ctx":
		return "rt.CtxTerm(" + x + ")"
	case strings.HasPrefix(t, "I"):
		return "rt.TermOf(" + x + ")"
	default:
		return x + ".Term()"
	}
}

func (d *Decl) ctor(t, term string) string {
	t = Canon(t)
	if t == "ctx" {
		return "rt.Ctx(" + term + ")"
	}
	if strings.HasPrefix(t, "I") {
		return "&T" + strings.TrimPrefix(t, "I") + "{R: " + term + "}"
	}
	b := base(t)
	amp := ""
	if isPtr(t) {
		amp = "&"
	}
	if fs, ok := d.Structs[b]; ok {
		var parts []string
		parts = append(parts, "R: "+term)
		for _, f := range fs {
			parts = append(parts, fmt.Sprintf("%s: %s", f.Name, d.ctor(f.Type, term+` + ".`+f.Name+`"`)))
		}
		return amp + b + "{" + strings.Join(parts, ", ") + "}"
	}
	return amp + b + "{R: " + term + "}"
}

func zero(t string) string {
	if isPtr(t) || strings.HasPrefix(t, "I") || t == "ctx" {
		return "nil"
	}
	return base(t) + "{}"
}

// allTypes lists every named type the package must define.
func (d *Decl) allTypes() []string {
	seen := map[string]bool{}
	var add func(t string)
	add = func(t string) {
		t = Canon(t)
		if t == "" || t == "ctx" {
			return
		}
		b := base(t)
		if seen[b] {
			return
		}
		seen[b] = true
		for _, f := range d.Structs[b] {
			add(f.Type)
		}
		if strings.HasPrefix(b, "I") {
			add("*T" + strings.TrimPrefix(b, "I"))
		}
	}
	add(d.Target)
	for _, p := range d.Provs {
		for _, t := range p.Requires {
			add(t)
		}
		for _, t := range p.Provides {
			add(t)
		}
		add(p.Bind)
	}
	for s := range d.Structs {
		add(s)
	}
	if tw := d.Twin(); tw != nil {
		add(tw.Target)
		for _, p := range tw.Provs {
			add(p.Bind)
			for _, t := range p.Requires {
				add(t)
			}
		}
	}
	var out []string
	for k := range seen {
		out = append(out, k)
	}
	sort.Strings(out)
	return out
}

func (d *Decl) provExpr(p *Prov) string {
	var e string
	switch p.Kind {
	case Value:
		e = "kessoku.Value(" + d.ctor(p.Provides[0], `"val:`+p.Name()+`"`) + ")"
	case Struct:
		e = "kessoku.Struct[" + p.Provides[0] + "]()"
	default:
		e = "kessoku.Provide(" + p.Name() + ")"
	}
	switch {
	case p.Bind != "" && p.Async && p.BindOuter:
		e = "kessoku.Bind[" + p.Bind + "](kessoku.Async(" + e + "))"
	case p.Bind != "" && p.Async:
		e = "kessoku.Async(kessoku.Bind[" + p.Bind + "](" + e + "))"
	case p.Bind != "":
		e = "kessoku.Bind[" + p.Bind + "](" + e + ")"
	case p.Async:
		e = "kessoku.Async(" + e + ")"
	}
	return e
}

// UsesCtx reports whether the user file needs to import context.
func (d *Decl) UsesCtx() bool {
	for _, p := range d.Provs {
		for _, t := range p.Requires {
			if t == "ctx" {
				return true
			}
		}
		for _, t := range p.Provides {
			if t == "ctx" {
				return true
			}
		}
	}
	if tw := d.Twin(); tw != nil && tw.Target == "ctx" {
		return true
	}
	return d.Target == "ctx" || d.Prelude == "ctx-injector" || d.Prelude == "pkg-ident-ctx"
}

// EmitBody emits type definitions, provider functions and the Inject declaration (without the
// package clause and imports, so several declarations can share a file).
func (d *Decl) EmitBody(withTypes bool) string {
	var sb strings.Builder
	if withTypes {
		for _, p := range d.Provs {
			if p.ErrAlias {
				sb.WriteString("// Failure is just another spelling of error.\ntype Failure = error\n\n")
				break
			}
		}
		aliases := map[string]bool{}
		for _, fs := range d.Structs {
			for _, f := range fs {
				if strings.HasPrefix(f.Type, "AT") && !aliases[f.Type] {
					aliases[f.Type] = true
				}
			}
		}
		var as []string
		for a := range aliases {
			as = append(as, a)
		}
		sort.Strings(as)
		for _, a := range as {
			fmt.Fprintf(&sb, "// %s is another name for %s.\ntype %s = %s\n\n", a, Canon(a), a, Canon(a))
		}
		for _, b := range d.allTypes() {
			switch {
			case strings.HasPrefix(b, "I"):
				fmt.Fprintf(&sb, "type %s interface {\n\tTerm() string\n\tis%s()\n}\n\n", b, b)
			case strings.HasPrefix(b, "V"):
				fmt.Fprintf(&sb, "type %s struct{ R string }\n\nfunc (v %s) Term() string {\n\tif v.R == \"\" {\n\t\treturn \"<zero>\"\n\t}\n\treturn v.R\n}\n\n", b, b)
			default:
				if fs, ok := d.Structs[b]; ok {
					fmt.Fprintf(&sb, "type %s struct {\n\tR string\n", b)
					for _, f := range fs {
						fmt.Fprintf(&sb, "\t%s %s\n", f.Name, GoType(f.Type))
					}
					sb.WriteString("}\n\n")
				} else {
					fmt.Fprintf(&sb, "type %s struct{ R string }\n\n", b)
				}
				fmt.Fprintf(&sb, "func (t *%s) Term() string {\n\tif t == nil {\n\t\treturn \"<nil>\"\n\t}\n\tif t.R == \"\" {\n\t\treturn \"<zero>\"\n\t}\n\treturn t.R\n}\n\n", b)
				if strings.HasPrefix(b, "T") {
					// marker so that I<k> is implemented by *T<k> only
					fmt.Fprintf(&sb, "func (t *%s) isI%s() {}\n\n", b, strings.TrimPrefix(b, "T"))
				}
			}
		}
	}
	sb.WriteString(d.emitInject(true))
	return sb.String()
}

// emitInject emits (optionally) the provider functions, then the Set variables and the Inject declaration.
func (d *Decl) emitInject(withProviders bool) string {
	var sb strings.Builder
	for _, p := range d.Provs {
		if p.Kind != Func || !withProviders {
			continue
		}
		var params, terms []string
		for i, t := range p.Requires {
			params = append(params, fmt.Sprintf("a%d %s", i, GoType(t)))
			x := fmt.Sprintf("a%d", i)
			if !isPtr(t) && !strings.HasPrefix(t, "I") && t != "ctx" {
				// value types: Term has a value receiver for V, pointer receiver otherwise
				if !strings.HasPrefix(t, "V") {
					x = "(&" + x + ")"
				}
			}
			terms = append(terms, TermExpr(t, x))
		}
		var results []string
		for _, t := range p.Provides {
			results = append(results, GoType(t))
		}
		if p.Fallible {
			if p.ErrAlias {
				results = append(results, "Failure")
			} else {
				results = append(results, "error")
			}
		}
		res := strings.Join(results, ", ")
		if len(results) > 1 {
			res = "(" + res + ")"
		}
		fmt.Fprintf(&sb, "func %s(%s) %s {\n", p.Name(), strings.Join(params, ", "), res)
		call := `rt.Call("` + p.Name() + `"`
		for _, t := range terms {
			call += ", " + t
		}
		call += ")"
		if p.Fallible {
			fmt.Fprintf(&sb, "\tr, err := %s\n\tif err != nil {\n\t\treturn ", call)
			for _, t := range p.Provides {
				sb.WriteString(zero(t) + ", ")
			}
			sb.WriteString("err\n\t}\n")
		} else {
			fmt.Fprintf(&sb, "\tr, _ := %s\n", call)
		}
		sb.WriteString("\treturn ")
		for i, t := range p.Provides {
			if i > 0 {
				sb.WriteString(", ")
			}
			term := "r"
			if i > 0 {
				term = fmt.Sprintf(`r+"#%d"`, i)
			}
			sb.WriteString(d.ctor(t, term))
		}
		if p.Fallible {
			sb.WriteString(", nil")
		}
		sb.WriteString("\n}\n\n")
	}

	// sets
	members := map[int][]int{} // set -> provider indexes in declaration order
	for _, idx := range d.order() {
		p := d.Provs[idx]
		if p.Set > 0 {
			members[p.Set] = append(members[p.Set], idx)
		}
	}
	children := map[int][]int{}
	for k, parent := range d.SetNest {
		if parent > 0 {
			children[parent] = append(children[parent], k)
		}
	}
	for _, c := range children {
		sort.Ints(c)
	}
	var setExpr func(k int) string
	setExpr = func(k int) string {
		var items []string
		for _, idx := range members[k] {
			items = append(items, d.provExpr(d.Provs[idx]))
		}
		for _, c := range children[k] {
			items = append(items, setRef(d, c, setExpr))
		}
		return "kessoku.Set(\n\t\t" + strings.Join(items, ",\n\t\t") + ",\n\t)"
	}
	var setKeys []int
	for k := range members {
		setKeys = append(setKeys, k)
	}
	for k := range children {
		if _, ok := members[k]; !ok {
			setKeys = append(setKeys, k)
		}
	}
	sort.Ints(setKeys)
	for _, k := range setKeys {
		if d.SetVar[k] {
			fmt.Fprintf(&sb, "var %sSet%d = %s\n\n", d.Name, k, setExpr(k))
		}
	}
	fmt.Fprintf(&sb, "var _ = kessoku.Inject[%s](\n\t%q,\n", GoType(d.Target), d.Name)
	emitted := map[int]bool{}
	top := func(k int) int {
		for d.SetNest[k] > 0 {
			k = d.SetNest[k]
		}
		return k
	}
	for _, idx := range d.order() {
		p := d.Provs[idx]
		if p.Set == 0 {
			fmt.Fprintf(&sb, "\t%s,\n", d.provExpr(p))
			continue
		}
		t := top(p.Set)
		if emitted[t] {
			continue
		}
		emitted[t] = true
		fmt.Fprintf(&sb, "\t%s,\n", setRef(d, t, setExpr))
	}
	sb.WriteString(")\n")
	return sb.String()
}

func setRef(d *Decl, k int, setExpr func(int) string) string {
	if d.SetVar[k] {
		return fmt.Sprintf("%sSet%d", d.Name, k)
	}
	return setExpr(k)
}

// Emit produces the complete user file.
func (d *Decl) Emit(pkg string) string {
	var sb strings.Builder
	fmt.Fprintf(&sb, "package %s\n\nimport (\n", pkg)
	if d.UsesCtx() {
		sb.WriteString("\t\"context\"\n\n")
	}
	sb.WriteString("\t\"github.com/mazrean/kessoku\"\n\t\"verif/rt\"\n)\n\nvar _ = rt.Call\n\n")
	sb.WriteString("// " + d.Spec() + "\n\n")
	switch d.Prelude {
	case "ctx-injector":
		sb.WriteString("type X9 struct{ R string }\n\nfunc Pre9(c context.Context) *X9 { return &X9{R: \"pre\"} }\n\nvar _ = kessoku.Inject[*X9](\"Pre\", kessoku.Provide(Pre9))\n\n")
	case "async-injector":
		// a complete Async injector earlier in the same file: the allocator has handed out ctx, errgroup's
		// import name and several variable names before the injector under test is generated
		sb.WriteString("type X8 struct{ R string }\n\ntype X9 struct{ R string }\n\ntype X7 struct{ R string }\n\nfunc Pre8() *X8 { return &X8{R: \"pre8\"} }\n\nfunc Pre7() *X7 { return &X7{R: \"pre7\"} }\n\nfunc Pre9(a *X8, b *X7) *X9 { return &X9{R: \"pre9\"} }\n\nvar _ = kessoku.Inject[*X9](\"Pre\", kessoku.Async(kessoku.Provide(Pre8)), kessoku.Async(kessoku.Provide(Pre7)), kessoku.Provide(Pre9))\n\n")
	case "pkg-ident-ctx":
		sb.WriteString("// a package-level context that happens to be called ctx\nvar ctx = context.Background()\n\n")
	}
	body := d.EmitBody(true)
	if tw := d.Twin(); tw != nil {
		// a second injector EARLIER in the same file, declared over the SAME provider functions but wrapped
		// differently (Async / Bind): anything the generator remembers per provider function or per provider
		// type across declarations shows up in the injector under test
		i := strings.LastIndex(body, "var _ = kessoku.Inject[")
		for k := range d.SetVar {
			if d.SetVar[k] {
				if j := strings.Index(body, fmt.Sprintf("var %sSet%d = ", d.Name, k)); j >= 0 && j < i {
					i = j
				}
			}
		}
		body = body[:i] + tw.emitInject(false) + "\n" + body[i:]
	}
	sb.WriteString(body)
	return sb.String()
}

// Twin returns the earlier injector ("Pre") of a twin prelude: the same providers, wrapped differently.
func (d *Decl) Twin() *Decl {
	if !strings.HasPrefix(d.Prelude, "twin-") {
		return nil
	}
	t := d.Clone()
	t.Name = "Pre"
	t.Prelude = ""
	for _, p := range t.Provs {
		switch d.Prelude {
		case "twin-all-async":
			if p.Kind == Func {
				p.Async = true
			}
		case "twin-all-sync":
			p.Async = false
		case "twin-bind":
			// every function provider of a *T<k> is ALSO bound to I<k> in the earlier injector
			if p.Kind == Func && p.Bind == "" && len(p.Provides) > 0 && strings.HasPrefix(p.Provides[0], "*T") {
				p.Bind = "I" + strings.TrimPrefix(p.Provides[0], "*T")
			}
		case "twin-unbound":
			p.Bind = ""
		}
	}
	if d.Prelude == "twin-unbound" {
		// without its Bind the earlier injector could not supply the interface: request the concrete graph instead
		for _, p := range t.Provs {
			for i, r := range p.Requires {
				if strings.HasPrefix(r, "I") {
					p.Requires[i] = "*T" + strings.TrimPrefix(r, "I")
				}
			}
		}
		if strings.HasPrefix(t.Target, "I") {
			t.Target = "*T" + strings.TrimPrefix(t.Target, "I")
		}
	}
	return t
}
