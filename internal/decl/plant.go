package decl

import (
	"fmt"
	"sort"
	"strings"
)

// Planted is a declaration with one deliberately planted defect.
type Planted struct {
	D     *Decl
	Kind  string   // cycle | self-loop | duplicate | orphan-struct
	Where string   // human description of what was planted
	Names []string // for cycles: providers (by first provided type) that lie on the planted cycle
}

func suppliedTypes(d *Decl, p *Prov) []string {
	out := append([]string(nil), p.Provides...)
	if p.Bind != "" {
		out = append(out, p.Bind)
	}
	return out
}

// dependsOn reports whether provider v needs provider u (transitively), per the reference.
func dependsOn(d *Decl, r *Ref, v, u int) bool {
	return r.TransDeps[v][u]
}

// Plants derives all single-defect variants of a valid declaration.
func Plants(d *Decl) []*Planted {
	ref := Reference(d)
	if ref.Refuse != "" {
		return nil
	}
	needed := map[int]bool{}
	for _, id := range ref.Needed {
		needed[id] = true
	}
	var out []*Planted
	// back edges (u requires something v supplies, v already depends on u) and self loops
	for _, u := range d.Provs {
		if u.Kind != Func || !needed[u.ID] {
			continue
		}
		for _, v := range d.Provs {
			if v.Kind != Func || !needed[v.ID] {
				continue
			}
			if u.ID != v.ID && !dependsOn(d, ref, v.ID, u.ID) {
				continue
			}
			for _, t := range suppliedTypes(d, v) {
				c := d.Clone()
				c.Provs[u.ID].Requires = append(c.Provs[u.ID].Requires, t)
				kind := "cycle"
				if u.ID == v.ID {
					kind = "self-loop"
				}
				c.Note += fmt.Sprintf(" + planted %s: %s requires %s", kind, u.Name(), t)
				out = append(out, &Planted{D: c, Kind: kind, Where: fmt.Sprintf("%s additionally requires %s (supplied by %s)", u.Name(), t, v.Name())})
			}
			// through a field of an expanded struct
			for _, sp := range d.Provs {
				if sp.Kind != Struct || len(v.Provides) == 0 || sp.Provides[0] != v.Provides[0] {
					continue
				}
				for _, f := range d.Structs[strings.TrimPrefix(sp.Provides[0], "*")] {
					if !isExported(f.Name) {
						continue
					}
					c := d.Clone()
					c.Provs[u.ID].Requires = append(c.Provs[u.ID].Requires, f.Type)
					already := false
					for _, q := range d.Provs[u.ID].Requires {
						if q == f.Type {
							already = true
						}
					}
					if already {
						continue
					}
					c.Note += fmt.Sprintf(" + planted cycle through field: %s requires %s", u.Name(), f.Type)
					out = append(out, &Planted{D: c, Kind: "cycle", Where: fmt.Sprintf("%s additionally requires field type %s of %s (supplied by %s)", u.Name(), f.Type, sp.Provides[0], v.Name())})
				}
			}
		}
	}
	// duplicate suppliers
	for _, p := range d.Provs {
		if p.Kind == Struct {
			continue
		}
		for _, t := range suppliedTypes(d, p) {
			for _, first := range []bool{false, true} {
				c := d.Clone()
				n := len(c.Provs)
				c.Provs = append(c.Provs, &Prov{ID: n, Kind: Func, Provides: []string{t}})
				ord := c.order()
				if len(c.Order) != len(c.Provs) {
					ord = make([]int, n+1)
					for i := range ord {
						ord[i] = i
					}
				}
				if first {
					ord = append([]int{n}, ord[:n]...)
				}
				c.Order = ord
				c.Note += fmt.Sprintf(" + planted duplicate supplier of %s (first=%v)", t, first)
				out = append(out, &Planted{D: c, Kind: "duplicate", Where: fmt.Sprintf("second provider P%d also supplies %s (declared first=%v)", n, t, first)})
			}
		}
	}
	// a struct field whose type is already supplied; two fields of one type
	var snames []string
	for s := range d.Structs {
		snames = append(snames, s)
	}
	sort.Strings(snames)
	for _, s := range snames {
		for _, p := range d.Provs {
			if p.Kind == Struct || len(p.Provides) == 0 || strings.TrimPrefix(p.Provides[0], "*") == s {
				continue
			}
			c := d.Clone()
			c.Structs[s] = append(c.Structs[s], Field{"F9", p.Provides[0]})
			c.Note += fmt.Sprintf(" + planted field F9 %s in %s", p.Provides[0], s)
			out = append(out, &Planted{D: c, Kind: "duplicate", Where: fmt.Sprintf("field F9 of %s has type %s, also supplied by %s", s, p.Provides[0], p.Name())})
		}
		c := d.Clone()
		c.Structs[s] = append(c.Structs[s], Field{"F8", c.Structs[s][0].Type})
		c.Note += " + planted two fields of one type in " + s
		out = append(out, &Planted{D: c, Kind: "duplicate", Where: fmt.Sprintf("two fields of %s have type %s", s, c.Structs[s][0].Type)})
	}
	// orphan struct expansions: nobody supplies the struct
	for _, ptr := range []bool{true, false} {
		for _, used := range []bool{false, true} {
			c := d.Clone()
			st := "S9"
			if ptr {
				st = "*S9"
			}
			c.Structs["S9"] = []Field{{"F0", "*U9"}}
			c.Provs = append(c.Provs, &Prov{ID: len(c.Provs), Kind: Struct, Provides: []string{st}})
			c.Order = nil
			if len(d.Order) == len(d.Provs) {
				c.Order = append(append([]int(nil), d.Order...), len(d.Provs))
			}
			if used {
				// the target's provider requires the orphan's field type
				for _, q := range c.Provs {
					if q.Kind == Func && len(q.Provides) > 0 && (q.Provides[0] == d.Target || q.Bind == d.Target) {
						q.Requires = append(q.Requires, "*U9")
					}
				}
			}
			c.Note += fmt.Sprintf(" + planted orphan Struct[%s] (field required=%v)", st, used)
			out = append(out, &Planted{D: c, Kind: "orphan-struct", Where: fmt.Sprintf("Struct[%s]() without any provider of %s (a needed provider requires its field type: %v)", st, st, used)})
		}
	}
	return out
}

// OnCycle checks that the provider types named by a cycle diagnostic form a closed walk in the
// declared dependency relation (in either direction), and returns a description when they do not.
func OnCycle(d *Decl, named []string) string {
	if len(named) < 2 {
		return "diagnostic names fewer than two types"
	}
	// supplier lookup (all suppliers, including field expansions)
	sup := map[string][]*Prov{}
	for _, p := range d.Provs {
		if p.Kind == Struct {
			for _, f := range d.Structs[strings.TrimPrefix(p.Provides[0], "*")] {
				if isExported(f.Name) {
					sup[f.Type] = append(sup[f.Type], p)
				}
			}
			continue
		}
		for _, t := range suppliedTypes(d, p) {
			sup[t] = append(sup[t], p)
		}
	}
	requires := func(a, b *Prov) bool { // a directly needs something b supplies
		reqs := append([]string(nil), a.Requires...)
		if a.Kind == Struct {
			reqs = append(reqs, a.Provides[0])
		}
		for _, t := range reqs {
			for _, s := range sup[t] {
				if s == b {
					return true
				}
			}
		}
		return false
	}
	provOf := func(t string) []*Prov {
		var out []*Prov
		for _, p := range d.Provs {
			if p.Kind == Struct {
				// a field-access node is named by its field type
				for _, f := range d.Structs[strings.TrimPrefix(p.Provides[0], "*")] {
					if f.Type == t {
						out = append(out, p)
					}
				}
				continue
			}
			if len(p.Provides) > 0 && p.Provides[0] == t {
				out = append(out, p)
			}
		}
		return out
	}
	if named[0] != named[len(named)-1] {
		return "the named path does not return to its first type"
	}
	for _, forward := range []bool{true, false} {
		ok := true
		for i := 0; i+1 < len(named) && ok; i++ {
			as, bs := provOf(named[i]), provOf(named[i+1])
			step := false
			for _, a := range as {
				for _, b := range bs {
					if forward && requires(b, a) || !forward && requires(a, b) {
						step = true
					}
				}
			}
			ok = step
		}
		if ok {
			return ""
		}
	}
	return "the named types do not form a closed walk of dependencies: " + strings.Join(named, " -> ")
}
