//go:build linux && amd64

// Package ptracer is a small ptrace supervisor used for crash-point and fault enumeration on the
// UNMODIFIED kessoku binary: it sees every system call of every thread of the traced process in
// one total order, numbers the "interesting" ones (those that touch the destination tree), and can
// either kill the process before the k-th of them executes or make exactly that call fail with a
// chosen errno. (strace's inject=...:when=k counts per thread, and the Go runtime moves the
// installing goroutine between threads, so strace cannot address "the k-th step" reliably.)
package ptracer

import (
	"bytes"
	"fmt"
	"os"
	"runtime"
	"strings"
	"syscall"
	"time"
)

// wNoThread (__WNOTHREAD): only wait for children of the calling thread, so that tracers running in
// parallel on their own locked OS threads do not steal each other's stops.
const wNoThread = 0x20000000

const (
	sysWrite      = 1
	sysOpen       = 2
	sysClose      = 3
	sysStat       = 4
	sysLstat      = 6
	sysFsync      = 74
	sysFdatasync  = 75
	sysFtruncate  = 77
	sysRename     = 82
	sysMkdir      = 83
	sysRmdir      = 84
	sysUnlink     = 87
	sysChmod      = 90
	sysFchmod     = 91
	sysExitGroup  = 231
	sysOpenat     = 257
	sysMkdirat    = 258
	sysNewfstatat = 262
	sysUnlinkat   = 263
	sysRenameat   = 264
	sysFchmodat   = 268
	sysRenameat2  = 316
	sysFchmodat2  = 452
	sysStatx      = 332
	sysPwrite64   = 18
	sysWritev     = 20
)

var names = map[uint64]string{
	sysWrite: "write", sysOpen: "open", sysClose: "close", sysStat: "stat", sysLstat: "lstat", sysFsync: "fsync", sysFdatasync: "fdatasync",
	sysFtruncate: "ftruncate", sysRename: "rename", sysMkdir: "mkdir", sysRmdir: "rmdir", sysUnlink: "unlink", sysChmod: "chmod", sysFchmod: "fchmod",
	sysExitGroup: "exit_group", sysOpenat: "openat", sysMkdirat: "mkdirat", sysNewfstatat: "newfstatat", sysUnlinkat: "unlinkat", sysRenameat: "renameat",
	sysFchmodat: "fchmodat", sysRenameat2: "renameat2", sysFchmodat2: "fchmodat2", sysStatx: "statx", sysPwrite64: "pwrite64", sysWritev: "writev",
}

// Event is one interesting system call.
type Event struct {
	Idx      int    `json:"idx"` // 1-based index among interesting calls
	Tid      int    `json:"tid"`
	Name     string `json:"name"`
	Path     string `json:"path,omitempty"`
	Path2    string `json:"path2,omitempty"`
	Fd       int    `json:"fd,omitempty"`
	Flags    uint64 `json:"flags,omitempty"`
	Ret      int64  `json:"ret"`
	Injected string `json:"injected,omitempty"`
	Mutating bool   `json:"mutating"`
}

// Plan says what to do to the k-th interesting call.
type Plan struct {
	KillBefore int           // >0: SIGKILL the process at the entry of that call (it is not executed); N+1 = at exit_group
	FailAt     int           // >0: make that call fail
	Errno      syscall.Errno // with FailAt
}

type Result struct {
	Events   []Event
	ExitCode int
	Killed   bool
	Stdout   string
	Stderr   string
	TimedOut bool
	Err      error
}

func readString(pid int, addr uintptr) string {
	if addr == 0 {
		return ""
	}
	var out []byte
	buf := make([]byte, 256)
	for len(out) < 4096 {
		n, err := syscall.PtracePeekData(pid, addr+uintptr(len(out)), buf)
		if err != nil || n == 0 {
			break
		}
		if i := bytes.IndexByte(buf[:n], 0); i >= 0 {
			out = append(out, buf[:i]...)
			return string(out)
		}
		out = append(out, buf[:n]...)
	}
	return string(out)
}

// Run executes argv under the supervisor. root is the destination tree: a call is interesting when
// one of its path arguments lies under root or its fd was opened under root.
func Run(argv []string, dir string, env []string, root string, plan Plan) *Result {
	res := &Result{}
	done := make(chan struct{})
	go func() {
		defer close(done)
		runtime.LockOSThread()
		defer runtime.UnlockOSThread()
		run(argv, dir, env, root, plan, res)
	}()
	<-done
	return res
}

func run(argv []string, dir string, env []string, root string, plan Plan, res *Result) {
	outR, outW, _ := os.Pipe()
	errR, errW, _ := os.Pipe()
	defer outR.Close()
	defer errR.Close()
	pid, err := syscall.ForkExec(argv[0], argv, &syscall.ProcAttr{
		Dir:   dir,
		Env:   env,
		Files: []uintptr{0, outW.Fd(), errW.Fd()},
		Sys:   &syscall.SysProcAttr{Ptrace: true, Pdeathsig: syscall.SIGKILL},
	})
	outW.Close()
	errW.Close()
	if err != nil {
		res.Err = err
		return
	}
	var outBuf, errBuf bytes.Buffer
	rd := make(chan struct{}, 2)
	go func() { _, _ = outBuf.ReadFrom(outR); rd <- struct{}{} }()
	go func() { _, _ = errBuf.ReadFrom(errR); rd <- struct{}{} }()
	defer func() {
		<-rd
		<-rd
		res.Stdout, res.Stderr = outBuf.String(), errBuf.String()
	}()

	var ws syscall.WaitStatus
	if _, err := syscall.Wait4(pid, &ws, wNoThread, nil); err != nil {
		res.Err = err
		return
	}
	const opts = syscall.PTRACE_O_TRACECLONE | syscall.PTRACE_O_TRACESYSGOOD | 0x100000 /* EXITKILL */ | syscall.PTRACE_O_TRACEFORK | syscall.PTRACE_O_TRACEVFORK
	if err := syscall.PtraceSetOptions(pid, opts); err != nil {
		res.Err = fmt.Errorf("setoptions: %w", err)
		_ = syscall.Kill(pid, syscall.SIGKILL)
		return
	}
	deadline := time.Now().Add(30 * time.Second)
	timer := time.AfterFunc(30*time.Second, func() { _ = syscall.Kill(pid, syscall.SIGKILL) })
	defer timer.Stop()

	inSyscall := map[int]bool{}
	pending := map[int]*Event{} // tid -> event recorded at entry
	failing := map[int]bool{}   // tid -> inject error at exit
	destFd := map[int]bool{}
	idx := 0
	killAll := func() {
		res.Killed = true
		_ = syscall.Kill(pid, syscall.SIGKILL)
	}
	_ = syscall.PtraceSyscall(pid, 0)
	for {
		var st syscall.WaitStatus
		tid, err := syscall.Wait4(-1, &st, syscall.WALL|wNoThread, nil)
		if err != nil {
			if err == syscall.EINTR {
				continue
			}
			break
		}
		if time.Now().After(deadline) {
			res.TimedOut = true
		}
		switch {
		case st.Exited():
			if tid == pid {
				res.ExitCode = st.ExitStatus()
				return
			}
			continue
		case st.Signaled():
			if tid == pid {
				res.ExitCode = -int(st.Signal())
				return
			}
			continue
		case !st.Stopped():
			continue
		}
		sig := st.StopSignal()
		if sig == syscall.SIGTRAP|0x80 {
			var regs syscall.PtraceRegs
			if err := syscall.PtraceGetRegs(tid, &regs); err != nil {
				_ = syscall.PtraceSyscall(tid, 0)
				continue
			}
			if !inSyscall[tid] {
				inSyscall[tid] = true
				nr := regs.Orig_rax
				ev := &Event{Tid: tid, Name: names[nr]}
				interesting := false
				under := func(p string) bool { return p == root || strings.HasPrefix(p, root+"/") }
				switch nr {
				case sysOpenat:
					ev.Path = readString(tid, uintptr(regs.Rsi))
					ev.Flags = regs.Rdx
					interesting = under(ev.Path)
					ev.Mutating = regs.Rdx&uint64(syscall.O_CREAT|syscall.O_WRONLY|syscall.O_RDWR|syscall.O_TRUNC) != 0
				case sysOpen:
					ev.Path = readString(tid, uintptr(regs.Rdi))
					ev.Flags = regs.Rsi
					interesting = under(ev.Path)
					ev.Mutating = regs.Rsi&uint64(syscall.O_CREAT|syscall.O_WRONLY|syscall.O_RDWR|syscall.O_TRUNC) != 0
				case sysMkdirat, sysUnlinkat, sysFchmodat, sysFchmodat2:
					ev.Path = readString(tid, uintptr(regs.Rsi))
					interesting = under(ev.Path)
					ev.Mutating = true
				case sysNewfstatat, sysStatx:
					ev.Path = readString(tid, uintptr(regs.Rsi))
					interesting = under(ev.Path)
				case sysMkdir, sysRmdir, sysUnlink, sysChmod:
					ev.Path = readString(tid, uintptr(regs.Rdi))
					interesting = under(ev.Path)
					ev.Mutating = true
				case sysStat, sysLstat:
					ev.Path = readString(tid, uintptr(regs.Rdi))
					interesting = under(ev.Path)
				case sysRenameat, sysRenameat2:
					ev.Path = readString(tid, uintptr(regs.Rsi))
					ev.Path2 = readString(tid, uintptr(regs.R10))
					interesting = under(ev.Path) || under(ev.Path2)
					ev.Mutating = true
				case sysRename:
					ev.Path = readString(tid, uintptr(regs.Rdi))
					ev.Path2 = readString(tid, uintptr(regs.Rsi))
					interesting = under(ev.Path) || under(ev.Path2)
					ev.Mutating = true
				case sysWrite, sysPwrite64, sysWritev, sysFsync, sysFdatasync, sysFtruncate, sysFchmod, sysClose:
					ev.Fd = int(regs.Rdi)
					interesting = destFd[ev.Fd]
					ev.Mutating = true
				case sysExitGroup:
					ev.Name = "exit_group"
					interesting = true
				}
				if nr == sysExitGroup {
					// there is no exit stop for exit_group: record it at entry
					idx++
					ev.Idx = idx
					if plan.KillBefore == idx {
						ev.Injected = "SIGKILL before the call"
						res.Events = append(res.Events, *ev)
						killAll()
						continue
					}
					res.Events = append(res.Events, *ev)
					_ = syscall.PtraceSyscall(tid, 0)
					continue
				}
				if interesting {
					idx++
					ev.Idx = idx
					if plan.KillBefore == idx {
						ev.Injected = "SIGKILL before the call"
						res.Events = append(res.Events, *ev)
						killAll()
						continue
					}
					if plan.FailAt == idx && nr != sysExitGroup {
						ev.Injected = "fails with " + plan.Errno.Error()
						failing[tid] = true
						regs.Orig_rax = ^uint64(0) // no such syscall: the kernel skips it
						_ = syscall.PtraceSetRegs(tid, &regs)
					}
					pending[tid] = ev
				}
			} else {
				inSyscall[tid] = false
				if ev := pending[tid]; ev != nil {
					delete(pending, tid)
					if failing[tid] {
						delete(failing, tid)
						regs.Rax = uint64(-int64(plan.Errno))
						_ = syscall.PtraceSetRegs(tid, &regs)
					}
					ev.Ret = int64(regs.Rax)
					switch ev.Name {
					case "openat", "open":
						if ev.Ret >= 0 {
							destFd[int(ev.Ret)] = true
							ev.Fd = int(ev.Ret)
						}
					case "close":
						delete(destFd, ev.Fd)
					}
					res.Events = append(res.Events, *ev)
				}
			}
			_ = syscall.PtraceSyscall(tid, 0)
			continue
		}
		if sig == syscall.SIGTRAP {
			// clone/fork/exec event stops
			_ = syscall.PtraceSyscall(tid, 0)
			continue
		}
		if sig == syscall.SIGSTOP && !knownThread(inSyscall, tid) {
			// initial stop of a newly cloned thread
			inSyscall[tid] = false
			_ = syscall.PtraceSyscall(tid, 0)
			continue
		}
		// deliver any other signal (SIGURG preemption etc.)
		_ = syscall.PtraceSyscall(tid, int(sig))
	}
}

func knownThread(m map[int]bool, tid int) bool {
	_, ok := m[tid]
	return ok
}
