package main

import (
	"encoding/json"
	"fmt"
	"go/ast"
	"go/parser"
	"go/scanner"
	"go/token"
	"os"
	"os/exec"
	"path/filepath"
	"sort"
	"strings"

	"verif/internal/pipe"
)

// buildOverlayBinary builds a program that lives inside the kessoku module only through a build
// overlay (files under /verif/overlay/<name>), with the verif build tag on.
func buildOverlayBinary(env *pipe.Env, name string, files map[string]string, pkgPath, out string) error {
	repl := map[string]string{}
	for virt, real := range files {
		repl[filepath.Join(pipe.RepoDir(), virt)] = real
	}
	ov, _ := json.Marshal(map[string]any{"Replace": repl})
	ovPath := filepath.Join(env.Work, "overlay-"+name+".json")
	if err := os.WriteFile(ovPath, ov, 0o644); err != nil {
		return err
	}
	cmd := exec.Command(pipe.GoBin, "build", "-buildvcs=false", "-tags", "verif", "-overlay", ovPath, "-o", out, pkgPath)
	cmd.Dir = pipe.RepoDir()
	cmd.Env = pipe.RepoGoEnv()
	b, err := cmd.CombinedOutput()
	if err != nil {
		return fmt.Errorf("%v\n%s", err, b)
	}
	return nil
}

type c12Out struct {
	States      int `json:"states"`
	Transitions int `json:"transitions"`
	Depth       int `json:"depth"`
	Alphabet    int `json:"alphabet"`
	Violations  []struct {
		History []string `json:"history"`
		Name    string   `json:"name"`
		Why     string   `json:"why"`
		Shape   string   `json:"shape"`
	} `json:"violations"`
	Ops string `json:"ops"`
}

// declaredIdents lists identifiers a generated file declares: per function its parameters and
// every variable declared in its body (per function literal too), plus import aliases.
func declaredIdents(path string) (map[string][]string, []string, error) {
	fset := token.NewFileSet()
	f, err := parser.ParseFile(fset, path, nil, 0)
	if err != nil {
		return nil, nil, err
	}
	var aliases []string
	for _, is := range f.Imports {
		if is.Name != nil {
			aliases = append(aliases, is.Name.Name)
		} else {
			p := strings.Trim(is.Path.Value, `"`)
			aliases = append(aliases, p[strings.LastIndexByte(p, '/')+1:])
		}
	}
	scopes := map[string][]string{}
	for _, d := range f.Decls {
		fd, ok := d.(*ast.FuncDecl)
		if !ok || fd.Body == nil {
			continue
		}
		n := 0
		var walk func(scope string, node ast.Node)
		walk = func(scope string, node ast.Node) {
			ast.Inspect(node, func(m ast.Node) bool {
				switch x := m.(type) {
				case *ast.FuncLit:
					n++
					walk(fmt.Sprintf("%s/func%d", fd.Name.Name, n), x.Body)
					return false
				case *ast.ValueSpec:
					for _, id := range x.Names {
						if id.Name != "_" {
							scopes[scope] = append(scopes[scope], id.Name)
						}
					}
				case *ast.AssignStmt:
					if x.Tok == token.DEFINE {
						for _, l := range x.Lhs {
							if id, ok := l.(*ast.Ident); ok && id.Name != "_" && id.Obj != nil && id.Obj.Decl == x {
								scopes[scope] = append(scopes[scope], id.Name)
							}
						}
					}
				case *ast.RangeStmt:
					if x.Tok == token.DEFINE {
						for _, l := range []ast.Expr{x.Key, x.Value} {
							if id, ok := l.(*ast.Ident); ok && id.Name != "_" {
								scopes[scope] = append(scopes[scope], id.Name)
							}
						}
					}
				}
				return true
			})
		}
		if fd.Type.Params != nil {
			for _, fl := range fd.Type.Params.List {
				for _, id := range fl.Names {
					scopes[fd.Name.Name] = append(scopes[fd.Name.Name], id.Name)
				}
			}
		}
		walk(fd.Name.Name, fd.Body)
	}
	return scopes, aliases, nil
}

// packageLevelNames lists the identifiers declared at package level in user files.
func packageLevelNames(files map[string]string, pkg string) map[string]bool {
	out := map[string]bool{}
	fset := token.NewFileSet()
	for name, src := range files {
		f, err := parser.ParseFile(fset, name, "package "+pkg+"\n\n"+src, 0)
		if err != nil {
			continue
		}
		for _, d := range f.Decls {
			switch x := d.(type) {
			case *ast.FuncDecl:
				if x.Recv == nil {
					out[x.Name.Name] = true
				}
			case *ast.GenDecl:
				for _, sp := range x.Specs {
					switch s := sp.(type) {
					case *ast.ValueSpec:
						for _, id := range s.Names {
							out[id.Name] = true
						}
					case *ast.TypeSpec:
						out[s.Name.Name] = true
					}
				}
			}
		}
		for _, is := range f.Imports {
			if is.Name != nil {
				out[is.Name.Name] = true
			} else {
				p := strings.Trim(is.Path.Value, `"`)
				out[p[strings.LastIndexByte(p, '/')+1:]] = true
			}
		}
	}
	delete(out, "_")
	return out
}

func runC12(args []string) {
	tier := parseTier(args)
	rc := newRunCtx("C12", tier)
	rc.Level = "model_checking"
	env := pipe.Setup()
	drv := filepath.Join(env.Work, "bin", "c12drv")
	err := buildOverlayBinary(env, "c12", map[string]string{
		"internal/kessoku/verifdrv/main.go": "/verif/overlay/c12/main.go",
	}, "./internal/kessoku/verifdrv", drv)
	if err != nil {
		fmt.Println("SETUP-FAILED: allocator driver does not build (VarPool API changed?):", err)
		os.Exit(2)
	}
	type run struct {
		depth int
		alpha string
		chain int
	}
	runs := []run{{3, "full", 140}, {5, "foo", 0}, {4, "num", 140}}
	if rc.Thorough() {
		runs = []run{{4, "full", 300}, {7, "foo", 0}, {5, "num", 300}}
	}
	states, transitions := 0, 0
	var samples []any
	var runDesc []string
	for _, r := range runs {
		out, err := exec.Command(drv, "-depth", fmt.Sprint(r.depth), "-alphabet", r.alpha, "-chain", fmt.Sprint(r.chain)).Output()
		if err != nil {
			fmt.Println("EXPLORER-FAILED: c12drv:", err)
			os.Exit(2)
		}
		var o c12Out
		if err := json.Unmarshal(out, &o); err != nil {
			fmt.Println("EXPLORER-FAILED: c12drv output:", err)
			os.Exit(2)
		}
		states += o.States
		transitions += o.Transitions
		runDesc = append(runDesc, fmt.Sprintf("alphabet %s (%d operations) depth %d: %d states, %d transitions", r.alpha, o.Alphabet, o.Depth, o.States, o.Transitions))
		if r.chain > 0 {
			runDesc = append(runDesc, fmt.Sprintf("alphabet %s long chains: every history [p,] o^k, k <= %d, for every operation o and every prefix operation p", r.alpha, r.chain))
		}
		for _, v := range o.Violations {
			kind := "collision"
			switch {
			case strings.Contains(v.Why, "keyword") || strings.Contains(v.Why, "predeclared"):
				kind = "reserved-name"
			case strings.Contains(v.Why, "package level"):
				kind = "package-level-name"
			}
			rc.Add(Finding{Kind: kind, Site: "allocator:" + v.Shape, Pre: "history", Detail: fmt.Sprintf("generated name %q %s", v.Name, v.Why), Witness: strings.Join(v.History, ", "),
				Replay: map[string]any{"history": v.History, "alphabet": r.alpha}})
		}
		if len(samples) < 2 {
			samples = append(samples, map[string]any{"alphabet": r.alpha, "depth": r.depth, "operations": o.Ops})
		}
	}

	// generator level: identifiers declared by generated code for adversarially named inputs
	progs := e2Programs(rc.Thorough())
	dir := filepath.Join(env.Work, fmt.Sprintf("c12-%s-%d", tier, os.Getpid()))
	_ = os.RemoveAll(dir)
	env.WriteModule(dir, "corpus")
	defer os.RemoveAll(dir)
	for _, pk := range []string{"errgroup", "context", "eg", "ctx", "kessoku", "y"} {
		_ = os.MkdirAll(filepath.Join(dir, "names", pk), 0o755)
		_ = os.WriteFile(filepath.Join(dir, "names", pk, "x.go"), []byte("package "+pk+"\n\ntype T struct{ A int }\n"), 0o644)
	}
	pipe.Parallel(len(progs), 32, func(i int) {
		p := progs[i]
		p.pkg = fmt.Sprintf("c%05d", i)
		pd := filepath.Join(dir, "o", p.pkg)
		_ = os.MkdirAll(pd, 0o755)
		for name, src := range p.Files {
			_ = os.MkdirAll(filepath.Dir(filepath.Join(pd, name)), 0o755)
			_ = os.WriteFile(filepath.Join(pd, name), []byte("package "+p.pkg+"\n\n"+src), 0o644)
		}
		for _, inv := range p.Invoke {
			code, stderr := env.RunKessoku(pd, append([]string{"-l", "error"}, inv...)...)
			p.exit = append(p.exit, code)
			p.stderr = append(p.stderr, stderr)
		}
	})
	genChecked := 0
	for _, p := range progs {
		if len(p.exit) == 0 || p.exit[0] != 0 {
			continue
		}
		bandRel := "k_band.go"
		if _, ok := p.Files["sub/k.go"]; ok {
			bandRel = "sub/k_band.go"
		}
		band := filepath.Join(dir, "o", p.pkg, bandRel)
		scopes, aliases, err := declaredIdents(band)
		if err != nil {
			// The output does not parse. If that is because a keyword was handed out as an identifier,
			// it is this property's business: look for `keyword :=`, `keyword =`, `keyword, x :=` and
			// `keyword <type>` inside a var block at token level.
			for _, kw := range keywordsUsedAsIdentifiers(band) {
				genChecked++
				rc.Add(Finding{Kind: "reserved-name", Site: "generator", Pre: p.Pre, Detail: fmt.Sprintf("generated code uses the keyword %q as an identifier (the file does not parse)", kw), Witness: "E2: " + p.Name, Replay: map[string]any{"files": p.Files, "generated": readFile(band)}})
			}
			continue // other unparsable output is C04's finding
		}
		genChecked++
		// package-level names of the package the generated file belongs to (files of the same directory)
		own := map[string]string{}
		for name, src := range p.Files {
			if filepath.Dir(name) == filepath.Dir(bandRel) {
				own[name] = src
			}
		}
		pkgNames := packageLevelNames(own, p.pkg)
		gen := readFile(band)
		report := func(kind, site, detail string) {
			rc.Add(Finding{Kind: kind, Site: site, Pre: p.Pre, Detail: detail, Witness: "E2: " + p.Name, Replay: map[string]any{"files": p.Files, "generated": gen}})
		}
		var snames []string
		for s := range scopes {
			snames = append(snames, s)
		}
		sort.Strings(snames)
		for _, s := range snames {
			seen := map[string]bool{}
			for _, id := range scopes[s] {
				hard := ""
				switch id {
				case "eg", "ctx", "ch", "zero", "err":
					hard = ":hard-coded-" + id
				}
				if isKeywordOrPredeclared(id) {
					report("reserved-name", "generator"+hard, fmt.Sprintf("generated code declares %q, a keyword or predeclared identifier", id))
				}
				if pkgNames[id] {
					report("package-level-name", "generator"+hard, fmt.Sprintf("generated code declares local %q, which is declared at package level in the user's package", id))
				}
				// the same name twice in one scope (redeclaration); function-literal scopes may shadow
				if seen[id] && !strings.Contains(s, "/func") && id != "zero" && id != "err" && id != "ch" {
					report("collision", "generator"+hard, fmt.Sprintf("identifier %q declared twice in the scope of %s", id, s))
				}
				seen[id] = true
			}
		}
		// import aliases must not collide with each other nor with package-level names of the user
		seenAlias := map[string]bool{}
		for _, a := range aliases {
			if seenAlias[a] {
				report("collision", "generator:import", fmt.Sprintf("import name %q used for two packages", a))
			}
			seenAlias[a] = true
		}
	}
	rc.Coverage = map[string]any{
		"states":                        states,
		"transitions":                   transitions,
		"traces_validated_against_impl": transitions,
		"samples":                       samples,
		"evaluations":                   transitions + genChecked,
		"distinct_nontrivial":           states,
		"rule":                          "explicit-state breadth-first search over request histories of the REAL VarPool (driver compiled into the kessoku module by build overlay, tag verif): operations Reg(b) [what ParseFile does for package-level names], Gen(b), GenType(T), GenChan(T) over adversarial bases (foo, foo0, foo1, fooCh, fooCh0, err, err0, ctx, eg, len, len0, type, string; and the bases int, uint, float, complex whose suffixed forms are predeclared) and types; every state is reached by replaying its history on a fresh pool; states deduplicated on (deep reflective dump of the pool, issued names, registered names); invariant on every Gen transition: name is a usable identifier, no keyword / predeclared identifier (go/token, types.Universe - not the repository's own tables), not registered, not issued before. " + strings.Join(runDesc, "; ") + ". Generator level: every E2 program of C04 (adversarial type / package-level / import names x 3 modes) through the real CLI; identifiers declared per generated function scope must avoid keywords, predeclared names and the user's package-level names.",
		"exhaustive":                    true,
		"generator_level_programs":      genChecked,
		"tree_hash":                     env.Hash,
	}
	rc.Assume = []string{"every transition is executed on the real allocator (there is no separate model), so traces_validated_against_impl equals transitions", "bounded history depth and name alphabet as listed"}
	rc.Finish()
}

// keywordsUsedAsIdentifiers scans a file that does not parse for keywords in identifier position.
func keywordsUsedAsIdentifiers(path string) []string {
	src, err := os.ReadFile(path)
	if err != nil {
		return nil
	}
	fset := token.NewFileSet()
	var sc scanner.Scanner
	sc.Init(fset.AddFile(path, -1, len(src)), src, nil, 0)
	type tk struct {
		tok token.Token
		lit string
	}
	var toks []tk
	for {
		_, t, lit := sc.Scan()
		if t == token.EOF {
			break
		}
		toks = append(toks, tk{t, lit})
	}
	seen := map[string]bool{}
	var out []string
	for i, t := range toks {
		if !t.tok.IsKeyword() || i+1 >= len(toks) {
			continue
		}
		next := toks[i+1].tok
		prevOK := i == 0 || toks[i-1].tok == token.SEMICOLON || toks[i-1].tok == token.LBRACE || toks[i-1].tok == token.COMMA || toks[i-1].tok == token.LPAREN
		if prevOK && (next == token.DEFINE || next == token.ASSIGN || next == token.COMMA) {
			// `range :=`, `map, err :=` ... but not legitimate `return x, nil` / `case a, b:` forms
			if t.tok == token.RETURN || t.tok == token.CASE || t.tok == token.DEFAULT || t.tok == token.VAR {
				continue
			}
			if !seen[t.tok.String()] {
				seen[t.tok.String()] = true
				out = append(out, t.tok.String())
			}
		}
	}
	return out
}
