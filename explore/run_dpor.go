package explore

import (
	"context"
	"errors"
	"fmt"
	"sort"
	"strings"
	"time"

	"verif/rt"
	"verif/sched"
	"verif/shim/vctx"
)

// hbState is what one execution has shown so far, in terms that do not depend on the interleaving chosen
// within its Mazurkiewicz trace: which providers were entered, the vector clock at their entry, the identity
// of their exit operation.
type hbState struct {
	entered  map[string]int
	enterClk map[string]sched.VC
	exitEv   map[string]sched.EvID
	cancel   bool
	returned bool
	outcome  string
	site     string
	retClk   sched.VC
}

// RunCasePOR explores one case under one scenario with dynamic partial-order reduction: one interleaving per
// Mazurkiewicz trace, every oracle phrased on happens-before or on thread-local / terminal state.
func RunCasePOR(c *rt.Case, info *CaseInfo, sc Scenario, maxExecs int) *Result {
	start := time.Now()
	r := &runner{c: c, info: info, sc: sc, prov: map[string]*ProvInfo{}, fail: map[string]bool{}, errs: map[string]error{},
		obs: map[string]*Obs{}, outs: map[string]*Outcome{}, notForced: map[string]bool{}, enteredAny: map[string]bool{}}
	r.res = &Result{Pkg: info.Pkg, Scenario: sc.Name, Fail: sc.Fail, Cancel: sc.Cancel, POR: true}
	for i := range info.Provs {
		p := &info.Provs[i]
		r.prov[p.ID] = p
		if p.Needed && p.Async {
			r.asyncs = append(r.asyncs, p.ID)
			if p.InputFree {
				r.inputFree = append(r.inputFree, p.ID)
			}
		}
	}
	for _, f := range sc.Fail {
		r.fail[f] = true
		r.errs[f] = errors.New("fail:" + f)
	}
	rt.SetBackend(r)
	defer rt.SetBackend(nil)
	// dependents[d] = needed providers that (transitively) depend on d
	dependents := map[string][]string{}
	for i := range info.Provs {
		p := &info.Provs[i]
		for _, d := range p.TransDeps {
			dependents[d] = append(dependents[d], p.ID)
		}
	}
	var hs *hbState
	onEvent := func(w *sched.World, t *sched.Thread, ev *sched.Event) {
		switch ev.Kind {
		case sched.OpEnvCancel:
			hs.cancel = true
		case sched.OpYield:
			switch {
			case strings.HasPrefix(ev.Label, "enter:"):
				pid := ev.Label[6:]
				hs.entered[pid]++
				r.enteredAny[pid] = true
				if hs.entered[pid] == 1 {
					hs.enterClk[pid] = t.Clock()
				}
				p := r.prov[pid]
				if p == nil || !p.Needed {
					r.note("unexpected-call", "provider "+pid+" is not needed for the requested type but was invoked", "", "")
					return
				}
				if hs.entered[pid] > 1 {
					r.note("duplicate-call", "provider "+pid+" invoked more than once", "", "")
				}
				for _, d := range p.Deps {
					if e, ok := hs.exitEv[d]; !ok || !t.HB(e) {
						r.note("dep-not-exited", fmt.Sprintf("provider %s entered before its producer %s returned", pid, d), "", "")
					}
				}
				if !eq(ev.Args, p.ArgTerms) {
					r.note("wrong-args", fmt.Sprintf("provider %s received (%s), the declared graph supplies (%s)", pid, strings.Join(ev.Args, ","), strings.Join(p.ArgTerms, ",")), "", "")
				}
				for _, d := range p.TransDeps {
					if r.fail[d] && hs.entered[d] > 0 {
						r.note("entered-after-failure", fmt.Sprintf("provider %s invoked although %s, on which it depends, failed", pid, d), "", "")
					}
				}
				if r.fail[pid] {
					for _, q := range dependents[pid] {
						if hs.entered[q] > 0 {
							r.note("entered-after-failure", fmt.Sprintf("provider %s invoked although %s, on which it depends, failed", q, pid), "", "")
						}
					}
				}
			case strings.HasPrefix(ev.Label, "exit:"):
				pid := ev.Label[5:]
				if _, ok := hs.exitEv[pid]; !ok {
					hs.exitEv[pid] = w.Now()
				}
			}
		case sched.OpMainReturn:
			hs.returned = true
			hs.outcome = ev.Label
			hs.site = w.MainSite
			hs.retClk = t.Clock()
		}
	}
	setup := func(w *sched.World) func() {
		hs = &hbState{entered: map[string]int{}, enterClk: map[string]sched.VC{}, exitEv: map[string]sched.EvID{}}
		r.cur = &execState{entered: map[string]int{}, exited: map[string]bool{}, inside: map[string]bool{}, failedEx: map[string]bool{}}
		r.curW = w
		w.OnEvent = onEvent
		return func() {
			ctx := vctx.New()
			if sc.Cancel {
				sched.GoEnv("canceller", func() {
					if sched.EnvCancelPoint() {
						ctx.Cancel(nil, "caller")
					}
				})
			}
			term, err := c.Call(ctx)
			es := ""
			if err != nil {
				es = err.Error()
			}
			sched.MainReturn(term + "\x1f" + es)
		}
	}
	e := &sched.DPOR{MaxExecs: maxExecs, Setup: setup}
	r.choice = e.CurrentChoices
	e.OnState = func(w *sched.World, alts []sched.Alt) {
		if !r.res.CoEnabled && len(alts) > 1 {
			for _, a := range alts[1:] {
				if a.T != alts[0].T {
					r.res.CoEnabled = true
					break
				}
			}
		}
	}
	e.AtTerminal = func(w *sched.World) {
		r.atTerminal(w) // deadlock / leak
		r.judgeTerminal(w, hs)
	}
	e.AfterRun = func(w *sched.World, choices []int, complete bool) {
		if len(w.Threads) > r.res.Threads {
			r.res.Threads = len(w.Threads)
		}
		for _, v := range w.Viol {
			d := v.Detail
			if v.Kind == "panic" {
				if i := strings.Index(d, "\n"); i > 0 {
					d = d[:i]
				}
			}
			key := v.Kind + "||" + d + "|"
			if o, ok := r.obs[key]; ok {
				o.Count++
			} else {
				r.obs[key] = &Obs{Kind: v.Kind, Detail: d, Count: 1, Schedule: append([]int(nil), choices...)}
			}
		}
		if w.Unsupported != "" {
			r.res.Unsupported = w.Unsupported
		}
	}
	e.Explore()
	r.res.States, r.res.Transitions, r.res.Execs, r.res.MaxDepth, r.res.Capped = e.Steps, e.Alts, e.Execs, e.MaxDepth, e.Capped
	r.res.SleepBlocked = e.SleepBlocked
	r.res.OverlapAll = len(r.inputFree) > 0 && r.res.MaxOverlap == len(r.inputFree)
	for _, p := range r.inputFree {
		if !r.enteredAny[p] {
			continue
		}
		for _, q := range r.asyncs {
			if q != p && !r.notForced[p+"<"+q] {
				r.res.ForcedAfter = append(r.res.ForcedAfter, p+"<"+q)
			}
		}
	}
	sort.Strings(r.res.ForcedAfter)
	for _, o := range r.outs {
		r.res.Outcomes = append(r.res.Outcomes, *o)
	}
	sort.Slice(r.res.Outcomes, func(i, j int) bool {
		a, b := r.res.Outcomes[i], r.res.Outcomes[j]
		return a.Term+a.Err+a.Site < b.Term+b.Err+b.Site
	})
	var ks []string
	for k := range r.obs {
		ks = append(ks, k)
	}
	sort.Strings(ks)
	for _, k := range ks {
		o := r.obs[k]
		_, l1 := sched.Replay(setup, o.Schedule)
		_, l2 := sched.Replay(setup, o.Schedule)
		o.Stable = l1 == l2 && l1 != ""
		if len(l1) > 6000 {
			l1 = l1[:6000] + "…"
		}
		o.Log = l1
		r.res.Obs = append(r.res.Obs, *o)
	}
	r.res.WallMs = time.Since(start).Milliseconds()
	return r.res
}

// judgeTerminal evaluates, at the end of a complete execution, the oracles that concern the whole execution.
func (r *runner) judgeTerminal(w *sched.World, hs *hbState) {
	// C05: happens-before between input-free Async providers, and after other Async providers
	var inside []string
	for _, p := range r.inputFree {
		if hs.entered[p] > 0 {
			inside = append(inside, p)
			for _, q := range r.asyncs {
				if q == p {
					continue
				}
				if e, ok := hs.exitEv[q]; !ok || !sched.HBClock(e, hs.enterClk[p]) {
					r.notForced[p+"<"+q] = true
				}
			}
		}
	}
	if n := len(inside); n > 0 && n <= 16 {
		// largest set of input-free Async providers no one of which must have returned before another starts:
		// all interleavings of a trace are executions, so exactly those can be inside their function together
		conc := func(a, b string) bool {
			ea, oka := hs.exitEv[a]
			eb, okb := hs.exitEv[b]
			return !(oka && sched.HBClock(ea, hs.enterClk[b])) && !(okb && sched.HBClock(eb, hs.enterClk[a]))
		}
		best := 0
		for m := 1; m < 1<<n; m++ {
			ok, cnt := true, 0
			for i := 0; i < n && ok; i++ {
				if m&(1<<i) == 0 {
					continue
				}
				cnt++
				for j := i + 1; j < n; j++ {
					if m&(1<<j) != 0 && !conc(inside[i], inside[j]) {
						ok = false
						break
					}
				}
			}
			if ok && cnt > best {
				best = cnt
			}
		}
		if best > r.res.MaxOverlap {
			r.res.MaxOverlap = best
		}
	}
	if !hs.returned {
		return
	}
	parts := strings.SplitN(hs.outcome, "\x1f", 2)
	term, errS := parts[0], parts[1]
	site := hs.site
	k := hs.outcome + "\x1f" + site
	if o, ok := r.outs[k]; ok {
		o.Count++
	} else {
		r.outs[k] = &Outcome{Term: term, Err: errS, Site: site, Count: 1}
	}
	failed := map[string]bool{}
	for p := range r.fail {
		if hs.entered[p] > 0 {
			failed[p] = true
		}
	}
	switch {
	case len(failed) > 0:
		if errS == "" {
			r.note("error-swallowed", fmt.Sprintf("provider(s) %s failed but the injector returned %q without error", keys(failed), term), site, "")
		} else {
			ok := false
			for p := range failed {
				if errS == "fail:"+p {
					ok = true
				}
			}
			if !ok && !(hs.cancel && errS == context.Canceled.Error()) {
				r.note("substitute-error", fmt.Sprintf("provider(s) %s failed but the injector returned error %q", keys(failed), errS), site, "")
			}
		}
	case errS != "":
		if !hs.cancel {
			r.note("unexpected-error", fmt.Sprintf("no provider failed and the caller did not cancel, but the injector returned error %q", errS), site, "")
		}
	default:
		if term != r.info.Term {
			kind := "wrong-result"
			if hs.cancel {
				kind = "partial-result"
			}
			r.note(kind, fmt.Sprintf("injector returned %q without error; sequential evaluation gives %q", term, r.info.Term), site, "")
		}
		for i := range r.info.Provs {
			p := &r.info.Provs[i]
			if p.Needed && hs.entered[p.ID] == 0 && !hs.cancel {
				r.note("missing-call", "needed provider "+p.ID+" was never invoked although the injector returned successfully", site, "")
			}
		}
	}
	if len(failed) == 0 && !hs.cancel {
		// fault-free return: the last operation of every goroutine must happen before the return
		for _, t := range w.Threads {
			if t.ID == 0 || t.Env {
				continue
			}
			if !t.Done() || !sched.HBClock(t.LastEv(), hs.retClk) {
				r.note("unjoined-goroutine", fmt.Sprintf("goroutine %s is not joined (%s) when the injector returns successfully", t.Name, w.DescribePending(t)), site, "")
			}
		}
	}
}

// Disagreement compares the verdict-relevant content of a full (state-caching, all interleavings) exploration
// with that of the partial-order-reduced one; "" when they agree. Used to validate the reduction itself.
func Disagreement(full, red *Result) string {
	if full.Capped || red.Capped {
		return ""
	}
	var d []string
	oset := func(r *Result) string {
		var s []string
		for _, o := range r.Outcomes {
			s = append(s, o.Term+"/"+o.Err+"/"+o.Site)
		}
		sort.Strings(s)
		return strings.Join(s, " ; ")
	}
	if a, b := oset(full), oset(red); a != b {
		d = append(d, "outcomes: full {"+a+"} por {"+b+"}")
	}
	kset := func(r *Result) string {
		m := map[string]bool{}
		for _, o := range r.Obs {
			m[o.Kind+"@"+o.Site+"#"+o.Blocked] = true
		}
		var s []string
		for k := range m {
			s = append(s, k)
		}
		sort.Strings(s)
		return strings.Join(s, " ; ")
	}
	if a, b := kset(full), kset(red); a != b {
		d = append(d, "observations: full {"+a+"} por {"+b+"}")
	}
	if full.MaxOverlap != red.MaxOverlap || full.OverlapAll != red.OverlapAll {
		d = append(d, fmt.Sprintf("overlap: full %d/%v por %d/%v", full.MaxOverlap, full.OverlapAll, red.MaxOverlap, red.OverlapAll))
	}
	if a, b := strings.Join(full.ForcedAfter, ","), strings.Join(red.ForcedAfter, ","); a != b {
		d = append(d, "forced-after: full {"+a+"} por {"+b+"}")
	}
	if full.CoEnabled != red.CoEnabled {
		d = append(d, fmt.Sprintf("co-enabled: full %v por %v", full.CoEnabled, red.CoEnabled))
	}
	return strings.Join(d, " || ")
}
