// vcheck is the single entry point of the verification machinery:
//
//	vcheck run <ID> --tier quick|thorough
//	vcheck replay <file>
//	vcheck corpus|explore ...   (diagnostics)
package main

import (
	"fmt"
	"os"
)

func main() {
	if len(os.Args) < 2 {
		fmt.Println("usage: vcheck run <ID> [--tier quick|thorough] | replay <file> | corpus <tier> | explore <tier> <families>")
		os.Exit(2)
	}
	switch os.Args[1] {
	case "corpus":
		cmdCorpus(os.Args[2:])
	case "explore":
		cmdExplore(os.Args[2:])
	default:
		fmt.Println("unknown command", os.Args[1])
		os.Exit(2)
	}
}
