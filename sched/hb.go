package sched

// Happens-before tracking. Every executed operation has a footprint: the shadow objects it reads (R), writes (W)
// or accumulates into (A: commutes with other accumulations, e.g. WaitGroup.Add/Done). Two operations of
// different threads are DEPENDENT when their footprints conflict (same object, modes other than R/R and A/A).
// Vector clocks make the order of dependent operations (plus program order and spawn) the happens-before relation
// of the execution, i.e. of its Mazurkiewicz trace: facts stated in terms of happens-before hold for every
// interleaving of the trace, which is what lets the partial-order-reducing explorer (dpor.go) run one
// interleaving per trace.

const (
	AccR uint8 = iota
	AccW
	AccA
)

// ObjKey names a shadow object.
type ObjKey struct {
	Kind byte // 'c' channel, 'g' waitgroup, 'o' once, 'm' mutex, 'x' context, 'v' variable, 'r' main-returned flag
	ID   int
}

type Acc struct {
	Key  ObjKey
	Mode uint8
}

// VC is a vector clock indexed by thread id.
type VC []int32

func (v VC) get(i int) int32 {
	if i < len(v) {
		return v[i]
	}
	return 0
}

func joinVC(a, b VC) VC {
	if len(b) > len(a) {
		n := make(VC, len(b))
		copy(n, a)
		a = n
	}
	for i, x := range b {
		if x > a[i] {
			a[i] = x
		}
	}
	return a
}

func leqVC(a, b VC) bool {
	for i, x := range a {
		if x > b.get(i) {
			return false
		}
	}
	return true
}

func cloneVC(a VC) VC { return append(VC(nil), a...) }

type objClock struct{ w, r, a VC }

// EvID identifies one executed operation: the thread and its per-thread sequence number.
type EvID struct {
	Thread int
	Seq    int32
}

// Step is one executed operation with its footprint.
type Step struct {
	Thread int
	Alt    int
	Seq    int32
	Kind   OpKind
	Foot   []Acc
}

func conflictMode(a, b uint8) bool {
	return !(a == AccR && b == AccR) && !(a == AccA && b == AccA)
}

// Dependent reports whether two footprints conflict.
func Dependent(a, b []Acc) bool {
	for _, x := range a {
		for _, y := range b {
			if x.Key == y.Key && conflictMode(x.Mode, y.Mode) {
				return true
			}
		}
	}
	return false
}

func (w *World) varKey(name string) ObjKey {
	id, ok := w.varID[name]
	if !ok {
		id = len(w.varID)
		w.varID[name] = id
	}
	return ObjKey{'v', id}
}

func (w *World) chanAcc(c *Chan) Acc {
	if c.Cap > 0 {
		return Acc{ObjKey{'c', c.ID}, AccW}
	}
	return Acc{ObjKey{'c', c.ID}, AccR}
}

// Footprint computes the objects operation op (with select alternative alt) touches.
func (w *World) Footprint(op *Op, alt int) []Acc {
	switch op.Kind {
	case OpRecv:
		return []Acc{w.chanAcc(w.chans[op.Obj])}
	case OpSend:
		return []Acc{{ObjKey{'c', op.Obj}, AccW}}
	case OpClose:
		if op.Obj < 0 {
			return nil
		}
		return []Acc{{ObjKey{'c', op.Obj}, AccW}}
	case OpSelect:
		var out []Acc
		for _, c := range op.Chans {
			if c != nil {
				out = append(out, w.chanAcc(c))
			}
		}
		return out
	case OpWGAdd, OpWGDone:
		return []Acc{{ObjKey{'g', op.Obj}, AccA}}
	case OpWGWait:
		return []Acc{{ObjKey{'g', op.Obj}, AccR}}
	case OpOnce, OpOnceEnd:
		return []Acc{{ObjKey{'o', op.Obj}, AccW}}
	case OpLock, OpUnlock:
		return []Acc{{ObjKey{'m', op.Obj}, AccW}}
	case OpCancel:
		var out []Acc
		var rec func(id int)
		rec = func(id int) {
			c := w.Ctxs[id]
			out = append(out, Acc{ObjKey{'x', id}, AccW}, Acc{ObjKey{'c', c.Done.ID}, AccW})
			for _, ch := range c.Children {
				rec(ch)
			}
		}
		rec(op.Obj)
		return out
	case OpCtxErr:
		return []Acc{{ObjKey{'x', op.Obj}, AccR}}
	case OpEnvCancel:
		return []Acc{{ObjKey{'r', 0}, AccR}}
	case OpMainReturn:
		return []Acc{{ObjKey{'r', 0}, AccW}}
	case OpAccess:
		var out []Acc
		for _, v := range op.Writes {
			out = append(out, Acc{w.varKey(v), AccW})
		}
		for _, v := range op.Reads {
			out = append(out, Acc{w.varKey(v), AccR})
		}
		return out
	}
	return nil
}

// commit advances the vector clock of t for the operation it has just been resumed to perform.
func (w *World) commit(t *Thread, op *Op, alt int) {
	for len(t.vc) <= t.ID {
		t.vc = append(t.vc, 0)
	}
	t.vc[t.ID]++
	foot := w.Footprint(op, alt)
	if op.Kind == OpAccess {
		// data races, judged on happens-before: a conflicting earlier access that is not ordered before this one
		for _, a := range foot {
			oc := w.objClk[a.Key]
			if oc == nil {
				continue
			}
			name := w.varName(a.Key.ID)
			if !leqVC(oc.w, t.vc) {
				w.Violate("race", "variable "+name+": access by "+t.Name+" ["+op.Label+"] is not ordered after an earlier write (no happens-before)")
			}
			if a.Mode == AccW && !leqVC(oc.r, t.vc) {
				w.Violate("race", "variable "+name+": write by "+t.Name+" ["+op.Label+"] is not ordered after an earlier read (no happens-before)")
			}
		}
	}
	for _, a := range foot {
		oc := w.objClk[a.Key]
		if oc == nil {
			continue
		}
		switch a.Mode {
		case AccW:
			t.vc = joinVC(joinVC(joinVC(t.vc, oc.w), oc.r), oc.a)
		case AccR:
			t.vc = joinVC(joinVC(t.vc, oc.w), oc.a)
		case AccA:
			t.vc = joinVC(joinVC(t.vc, oc.w), oc.r)
		}
	}
	for _, a := range foot {
		oc := w.objClk[a.Key]
		if oc == nil {
			oc = &objClock{}
			w.objClk[a.Key] = oc
		}
		switch a.Mode {
		case AccW:
			oc.w, oc.r, oc.a = cloneVC(t.vc), nil, nil
		case AccR:
			oc.r = joinVC(cloneVC(oc.r), t.vc)
		case AccA:
			oc.a = joinVC(cloneVC(oc.a), t.vc)
		}
	}
	w.Trace = append(w.Trace, Step{Thread: t.ID, Alt: alt, Seq: t.vc[t.ID], Kind: op.Kind, Foot: foot})
}

func (w *World) varName(id int) string {
	for n, i := range w.varID {
		if i == id {
			return n
		}
	}
	return "?"
}

// Now returns the identity of the operation the running thread is performing.
func (w *World) Now() EvID {
	t := w.running
	return EvID{t.ID, t.vc.get(t.ID)}
}

// HB reports whether operation e happens before the current point of thread t.
func (t *Thread) HB(e EvID) bool { return e.Seq > 0 && t.vc.get(e.Thread) >= e.Seq }

// Clock returns a copy of the thread's vector clock.
func (t *Thread) Clock() VC { return cloneVC(t.vc) }

// HBClock reports whether operation e happens before (or is) the point described by clock c.
func HBClock(e EvID, c VC) bool { return e.Seq > 0 && c.get(e.Thread) >= e.Seq }

// LastEv returns the identity of the last operation thread t performed.
func (t *Thread) LastEv() EvID { return EvID{t.ID, t.vc.get(t.ID)} }
