// Package rt is the runtime the emitted provider stubs call. A provider does nothing but
// rt.Call(id, argTerms...): that is "enter", a scheduler yield, "exit", and a symbolic result
// term (or the scenario's sentinel error). The backend decides what a call means: the controlled
// explorer, the free-running gate controller (conformance pass) or a plain sequential recorder.
package rt

import (
	"context"
	"reflect"
	"strings"
)

// Backend gives meaning to provider calls.
type Backend interface {
	Call(pid string, args []string) (string, error)
}

var backend Backend

func SetBackend(b Backend) { backend = b }

// Term builds the symbolic result term of a provider call.
func Term(pid string, args []string) string { return pid + "(" + strings.Join(args, ",") + ")" }

// Call is invoked by every emitted provider function.
func Call(pid string, args ...string) (string, error) {
	if backend == nil {
		return Term(pid, args), nil
	}
	return backend.Call(pid, args)
}

// TermOf reads the term of an interface-typed value, tolerating nil.
func TermOf(x interface{ Term() string }) string {
	if x == nil {
		return "<nil>"
	}
	if v := reflect.ValueOf(x); v.Kind() == reflect.Pointer && v.IsNil() {
		return "<nil>"
	}
	return x.Term()
}

// Case is one injector registered by a harness file.
type Case struct {
	Pkg      string // corpus package id
	Injector string
	HasCtx   bool
	HasErr   bool
	// Call invokes the injector with symbolic arguments and returns the result term.
	Call func(ctx any) (string, error)
	// Unsupported is non-empty when the harness could not construct an argument.
	Unsupported string
}

var Cases []*Case

func Register(c *Case) { Cases = append(Cases, c) }

type ctxTermKey struct{}

// Ctx is what an emitted provider of context.Context returns: a never-cancelled context that carries the
// provider's symbolic term.
func Ctx(term string) context.Context {
	return context.WithValue(context.Background(), ctxTermKey{}, term)
}

// CtxTerm reads the term of a context: the term a provider gave it, or "ctx" for the injector's own context.
func CtxTerm(c context.Context) string {
	if c == nil {
		return "<nil>"
	}
	if v, ok := c.Value(ctxTermKey{}).(string); ok {
		return v
	}
	return "ctx"
}
