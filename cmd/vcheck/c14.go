package main

// C14 — migration output is well-formed, minimal and deterministic; failures are clean.
//
// Inputs (all run through the REAL `kessoku migrate` CLI):
//   L: the wire configurations of C13's universe (local types, every construct, every set structure);
//   X: wire files that use types/providers of external packages whose names collide (two packages
//      named config, a package whose name differs from its directory, a package named like a local
//      identifier of the generated code), crossed with how the files spell their imports and how the
//      uses are spread over 1..3 files;
//   I: invalid inputs of every listed kind planted at every file / pattern position.
// Oracle on success (exit 0 and a file written): go/format leaves the file unchanged, the package
// compiles with the wire files set aside (which also proves imports == packages used: Go rejects both
// unused and missing imports), every set variable of the input is declared exactly once under its
// name, sha256 is identical over three runs with GOMAXPROCS 1/4/16. On failure: exit != 0 and the
// output path is absent (no previous file) or byte- and mtime-identical (previous file).

import (
	"crypto/sha256"
	"encoding/hex"
	"fmt"
	"go/ast"
	"go/format"
	"go/parser"
	"go/token"
	"os"
	"os/exec"
	"path/filepath"
	"regexp"
	"sort"
	"strconv"
	"strings"
	"sync"
	"time"

	"verif/internal/pipe"
	"verif/internal/seam"
)

// c14Prog is one input of the C14 universe.
type c14Prog struct {
	histRan, histWrote, histSame bool
	histExit, histLen            int
	histOther                    string
	Family   string
	Name     string                       // one-line witness
	Pre      string                       // canonical precondition
	Dirs     map[string]map[string]string // directory (relative to the program root) -> file -> source
	Cwd      string                       // directory migrate runs in
	Patterns []string
	OutDir   string // directory whose package the output must compile in ("" = Cwd)
	Invalid  string // non-empty: the kind of planted defect; migrate must fail
	Cfg      *wCfg

	id       string
	exit     [3]int
	stderr   string
	out      string // output of the first run
	sums     [3]string
	wrote    bool
	compile  string
	findings []Finding
}

var oldTime = time.Date(2001, 2, 3, 4, 5, 6, 0, time.UTC)

// ---------------------------------------------------------------------------------------------
// family X: external packages with colliding names

type extPkg struct {
	Path string // import path below corpus/x/
	Name string // declared package name
}

var extPkgs = map[string]extPkg{
	"a":     {"corpus/x/a/config", "config"},
	"b":     {"corpus/x/b/config", "config"},
	"c":     {"corpus/x/c/config", "config"}, // third namesake, used by the three-files layout
	"ext2":  {"corpus/x/ext2", "ext"},        // package name differs from the last path element
	"s":     {"corpus/x/s", "s"},             // named like the receiver the FieldsOf accessor uses
	"plain": {"corpus/x/plain", "plain"},
}

func capName(s string) string { return strings.ToUpper(s[:1]) + s[1:] }

func extPkgSrc(name string) string {
	return fmt.Sprintf(`package %s

type T struct{ R string }

func NewT() *T { return &T{R: %q} }

var Default = T{R: "default"}

type I interface{ M() }

type Impl struct{ R string }

func (*Impl) M() {}

func NewImpl() *Impl { return &Impl{} }

var DefaultImpl = &Impl{}

type C struct {
	A *T
	B string
}

type S struct{ F *T }

// S2 has a field named like its own package.
type S2 struct{ %s *T }
`, name, name, capName(name))
}

// extUse is one way a wire file can use an external package (q is the name it is imported under).
type extUse struct {
	Label  string
	Elems  func(q string, i int) string // elements of wire.NewSet, "" if the use is an injector
	Inj    func(q string, i int) string // an injector function, if any
	Local  func(q string, i int) string // declarations the use needs in providers.go (imports q there)
	NoFile bool                         // the wire file itself does not import the package
	Typed  bool                         // the package reaches the output through a go/types type, not through the file's expression
}

var extUses = []extUse{
	{Label: "func", Elems: func(q string, i int) string { return q + ".NewT" }},
	{Label: "value", Elems: func(q string, i int) string { return "wire.Value(" + q + ".Default)" }},
	{Label: "struct", Typed: true, Elems: func(q string, i int) string { return "wire.Struct(new(" + q + ".S), \"*\")" }},
	{Label: "bind", Typed: true, Elems: func(q string, i int) string {
		return q + ".NewImpl, wire.Bind(new(" + q + ".I), new(*" + q + ".Impl))"
	}},
	{Label: "fieldsof", Typed: true, Elems: func(q string, i int) string { return "wire.FieldsOf(new(*" + q + ".C), \"A\")" }},
	{Label: "ifacevalue", Typed: true, Elems: func(q string, i int) string {
		return "wire.InterfaceValue(new(" + q + ".I), " + q + ".DefaultImpl)"
	}},
	{Label: "result", Typed: true, Inj: func(q string, i int) string {
		return fmt.Sprintf("func Init%d() *%s.T {\n\twire.Build(%s.NewT)\n\treturn nil\n}\n", i, q, q)
	}},
	{Label: "local-struct", NoFile: true, Typed: true,
		Elems: func(q string, i int) string { return fmt.Sprintf("wire.Struct(new(L%d), \"*\")", i) },
		Local: func(q string, i int) string { return fmt.Sprintf("type L%d struct{ F *%s.T }\n", i, q) }},
	{Label: "struct-field-named-like-package", Typed: true, Elems: func(q string, i int) string { return "wire.Struct(new(" + q + ".S2), \"*\")" }},
	{Label: "local-fieldsof", NoFile: false,
		// a FieldsOf over a LOCAL struct next to a use of the package: the accessor's receiver is called s
		Elems: func(q string, i int) string { return fmt.Sprintf("%s.NewT, wire.FieldsOf(new(*LC%d), \"A\")", q, i) },
		Local: func(q string, i int) string {
			return fmt.Sprintf("type LC%d struct{ A *LT%d }\n\ntype LT%d struct{ R string }\n", i, i, i)
		}},
	{Label: "param-only", Inj: func(q string, i int) string {
		// the package is imported by the wire file but appears in the injector's parameter list only
		return fmt.Sprintf("func InitP%d(x *%s.T, c *LPC%d) *LP%d {\n\twire.Build(NewLP%d, wire.FieldsOf(new(*LPC%d), \"A\"))\n\treturn nil\n}\n", i, q, i, i, i, i)
	}, Local: func(q string, i int) string {
		return fmt.Sprintf("type LP%d struct{ R string }\n\ntype LPA%d struct{ R string }\n\ntype LPC%d struct{ A *LPA%d }\n\nfunc NewLP%d(x *%s.T, a *LPA%d, c *LPC%d) *LP%d { return &LP%d{} }\n", i, i, i, i, i, q, i, i, i, i)
	}},
}

// extPrograms enumerates family X.
func extPrograms(thorough bool) []*c14Prog {
	pairs := [][2]string{{"a", "b"}, {"a", "a"}, {"a", "plain"}, {"ext2", "plain"}, {"s", "plain"}, {"b", "a"}}
	if thorough {
		pairs = append(pairs, [2]string{"ext2", "a"}, [2]string{"s", "a"})
	}
	second := []int{0, 1, 2, 5} // func, value, struct, ifacevalue
	if thorough {
		second = []int{0, 1, 2, 3, 4, 5, 6, 7} // + bind, fieldsof, result, local-struct
	}
	type spelling struct {
		layout string // same-file | two-files | three-files
		n1, n2 string // "" = unaliased, otherwise the alias ("=": the same alias for both)
	}
	spellings := []spelling{
		{"same-file", "", "q2"}, {"same-file", "q1", "q2"}, {"same-file", "", ""},
		{"two-files", "", ""}, {"two-files", "x", "x"}, {"two-files", "q1", "q2"}, {"two-files", "", "q2"}, {"two-files", "q1", ""},
	}
	spellings = append(spellings, spelling{"three-files", "", ""})
	if thorough {
		spellings = append(spellings, spelling{"three-files", "x", "x"})
	}
	var out []*c14Prog
	for _, pr := range pairs {
		p1, p2 := extPkgs[pr[0]], extPkgs[pr[1]]
		for u1 := range extUses {
			for _, u2 := range second {
				for _, sp := range spellings {
					name := func(p extPkg, alias string) string {
						if alias == "" {
							return p.Name
						}
						return alias
					}
					q1, q2 := name(p1, sp.n1), name(p2, sp.n2)
					use1, use2 := extUses[u1], extUses[u2]
					if sp.layout == "same-file" && !use1.NoFile && !use2.NoFile {
						if q1 == q2 && p1.Path != p2.Path {
							continue // one file cannot import two packages under one name
						}
						if p1.Path == p2.Path && q1 != q2 && sp.n1 == "" && sp.n2 == "" {
							continue
						}
					}
					prog := &c14Prog{Family: "X", Cwd: ".", Patterns: []string{"."}}
					prog.Name = fmt.Sprintf("%s as %q: %s  +  %s as %q: %s  [%s]", p1.Path, q1, use1.Label, p2.Path, q2, use2.Label, sp.layout)
					same := "distinct-packages-distinct-names"
					switch {
					case p1.Path == p2.Path:
						same = "same-package-twice"
					case p1.Name == p2.Name:
						same = "two-packages-one-name"
					}
					// derived feature: a type-derived use of one package sits in a file whose own import table
					// maps that package's NAME to its namesake
					namesake := "no"
					if same == "two-packages-one-name" && sp.layout == "same-file" {
						if (use1.Typed && !use2.NoFile && q2 == p1.Name) || (use2.Typed && !use1.NoFile && q1 == p2.Name) {
							namesake = "yes"
						}
					}
					prog.Pre = fmt.Sprintf("pkgs=%s+%s,%s,use=%s+%s,layout=%s,spelling=%s+%s,namesake-in-type-use-file=%s", pr[0], pr[1], same, use1.Label, use2.Label, sp.layout, orStr(sp.n1, "unaliased"), orStr(sp.n2, "unaliased"), namesake)
					imp := func(p extPkg, alias string) string {
						if alias == "" {
							return fmt.Sprintf("\t%q\n", p.Path)
						}
						return fmt.Sprintf("\t%s %q\n", alias, p.Path)
					}
					body := func(u extUse, q string, i int) string {
						var sb strings.Builder
						if u.Elems != nil {
							fmt.Fprintf(&sb, "var Set%d = wire.NewSet(%s)\n\n", i, u.Elems(q, i))
						}
						if u.Inj != nil {
							sb.WriteString(u.Inj(q, i) + "\n")
						}
						return sb.String()
					}
					file := func(imports []string, bodies ...string) string {
						seen := map[string]bool{}
						lines := "\t\"github.com/google/wire\"\n"
						for _, l := range imports {
							if l != "" && !seen[l] {
								seen[l] = true
								lines += l
							}
						}
						return "//go:build wireinject\n\npackage app\n\nimport (\n" + lines + ")\n\n" + strings.Join(bodies, "")
					}
					i1, i2 := imp(p1, sp.n1), imp(p2, sp.n2)
					if use1.NoFile {
						i1 = ""
					}
					if use2.NoFile {
						i2 = ""
					}
					files := map[string]string{}
					switch sp.layout {
					case "same-file":
						files["wire_a.go"] = file([]string{i1, i2}, body(use1, q1, 1), body(use2, q2, 2))
					case "two-files":
						files["wire_a.go"] = file([]string{i1}, body(use1, q1, 1))
						files["wire_b.go"] = file([]string{i2}, body(use2, q2, 2))
					case "three-files":
						files["wire_a.go"] = file([]string{i1}, body(use1, q1, 1))
						files["wire_b.go"] = file([]string{i2}, body(use2, q2, 2))
						third, q3 := extPkgs["plain"], "plain"
						if p1.Name == "config" || p2.Name == "config" {
							third, q3 = extPkgs["c"], name(extPkgs["c"], sp.n1)
						}
						files["wire_c.go"] = file([]string{imp(third, sp.n1)}, body(extUses[0], q3, 3))
					}
					// providers.go: local declarations (it imports the packages under its own, unaliased or
					// numbered, names: what the wire files call them is irrelevant here)
					var local strings.Builder
					var limps []string
					for k, u := range []extUse{use1, use2} {
						if u.Local == nil {
							continue
						}
						lq := fmt.Sprintf("lp%d", k+1)
						decls := u.Local(lq, k+1)
						if strings.Contains(decls, lq+".") {
							limps = append(limps, imp([]extPkg{p1, p2}[k], lq))
						}
						local.WriteString(decls + "\n")
					}
					src := "package app\n\n"
					if len(limps) > 0 {
						src += "import (\n" + strings.Join(limps, "") + ")\n\n"
					}
					files["providers.go"] = src + local.String()
					prog.Dirs = map[string]map[string]string{".": files}
					out = append(out, prog)
				}
			}
		}
	}
	// layout "same-set": both uses are elements of ONE provider set (the order in which one set's elements reach
	// the import table is what decides which namesake keeps the plain name)
	setPairs := [][2]string{{"a", "b"}, {"b", "a"}, {"a", "plain"}, {"ext2", "plain"}}
	secondSet := []string{"func", "struct", "fieldsof", "bind"}
	if thorough {
		secondSet = append(secondSet, "value", "ifacevalue", "struct-field-named-like-package")
	}
	for _, pr := range setPairs {
		p1, p2 := extPkgs[pr[0]], extPkgs[pr[1]]
		for _, use1 := range extUses {
			if use1.Elems == nil || use1.NoFile || use1.Local != nil {
				continue
			}
			for _, use2 := range extUses {
				if use2.Elems == nil || indexOf(secondSet, use2.Label) < 0 {
					continue
				}
				for _, sp := range [][2]string{{"", "q2"}, {"q1", "q2"}, {"q1", ""}} {
					q1, q2 := orStr(sp[0], p1.Name), orStr(sp[1], p2.Name)
					if q1 == q2 {
						continue
					}
					same := "distinct-packages-distinct-names"
					if p1.Name == p2.Name {
						same = "two-packages-one-name"
					}
					namesake := "no"
					if same == "two-packages-one-name" && ((use1.Typed && q2 == p1.Name) || (use2.Typed && q1 == p2.Name)) {
						namesake = "yes"
					}
					imp := func(p extPkg, alias string) string {
						if alias == "" {
							return fmt.Sprintf("\t%q\n", p.Path)
						}
						return fmt.Sprintf("\t%s %q\n", alias, p.Path)
					}
					src := "//go:build wireinject\n\npackage app\n\nimport (\n\t\"github.com/google/wire\"\n" + imp(p1, sp[0]) + imp(p2, sp[1]) + ")\n\n" +
						fmt.Sprintf("var Set1 = wire.NewSet(%s, %s)\n", use1.Elems(q1, 1), use2.Elems(q2, 2))
					prog := &c14Prog{Family: "X", Cwd: ".", Patterns: []string{"."}}
					prog.Name = fmt.Sprintf("%s as %q: %s  +  %s as %q: %s  [same-set]", p1.Path, q1, use1.Label, p2.Path, q2, use2.Label)
					prog.Pre = fmt.Sprintf("pkgs=%s+%s,%s,use=%s+%s,layout=same-set,spelling=%s+%s,namesake-in-type-use-file=%s", pr[0], pr[1], same, use1.Label, use2.Label, orStr(sp[0], "unaliased"), orStr(sp[1], "unaliased"), namesake)
					prog.Dirs = map[string]map[string]string{".": {"wire_a.go": src, "providers.go": "package app\n"}}
					out = append(out, prog)
				}
			}
		}
	}
	return out
}

// inAlphabet reports whether every node kind of c belongs to the given leaf / inner alphabets.
func inAlphabet(c *wCfg, leaf, dep []string) bool {
	for _, n := range c.Nodes {
		ks := dep
		if len(n.Deps) == 0 {
			ks = leaf
		}
		if indexOf(ks, n.Kind) < 0 {
			return false
		}
	}
	return true
}

func orStr(s, d string) string {
	if s == "" {
		return d
	}
	return s
}

// ---------------------------------------------------------------------------------------------
// family I: invalid inputs planted at every position

const invProviders = `package app

type A struct{ R string }

type B struct{ R string }

type D struct{ R string }

type R struct{ R string }

func NewA() *A { return &A{} }

func NewB(a *A) *B { return &B{} }

func NewD(b *B) *D { return &D{} }

func NewR(a *A, b *B, d *D) *R { return &R{} }

type IQ interface{ MQ() }

type Q struct{ R string }

func (*Q) MQ() {}

func MakeQ() *Q { return &Q{} }
`

// invBase builds a valid local package whose wire configuration is spread over f files.
func invBase(f int) map[string]string {
	hdr := "//go:build wireinject\n\npackage app\n\nimport \"github.com/google/wire\"\n\n"
	files := map[string]string{"providers.go": invProviders}
	switch f {
	case 1:
		files["wire_a.go"] = hdr + "var SetA = wire.NewSet(NewA, NewB, NewD)\n\nfunc Init() *R {\n\twire.Build(SetA, NewR)\n\treturn nil\n}\n"
	case 2:
		files["wire_a.go"] = hdr + "var SetA = wire.NewSet(NewA)\n\nfunc Init() *R {\n\twire.Build(SetA, SetB, NewR)\n\treturn nil\n}\n"
		files["wire_b.go"] = hdr + "var SetB = wire.NewSet(NewB, NewD)\n"
	case 3:
		files["wire_a.go"] = hdr + "var SetA = wire.NewSet(NewA)\n\nfunc Init() *R {\n\twire.Build(SetA, SetB, SetC, NewR)\n\treturn nil\n}\n"
		files["wire_b.go"] = hdr + "var SetB = wire.NewSet(NewB)\n"
		files["wire_c.go"] = hdr + "var SetC = wire.NewSet(NewD)\n"
	}
	return files
}

func sortedKeys[V any](m map[string]V) []string {
	var ks []string
	for k := range m {
		ks = append(ks, k)
	}
	sort.Strings(ks)
	return ks
}

func copyFiles(m map[string]string) map[string]string {
	out := map[string]string{}
	for k, v := range m {
		out[k] = v
	}
	return out
}

// invalidPrograms enumerates family I, plus the valid multi-file bases as controls.
func invalidPrograms() []*c14Prog {
	var out []*c14Prog
	for f := 1; f <= 3; f++ {
		base := invBase(f)
		out = append(out, &c14Prog{Family: "M", Name: fmt.Sprintf("valid local package, %d wire file(s)", f), Pre: fmt.Sprintf("valid,files=%d", f), Dirs: map[string]map[string]string{".": base}, Cwd: ".", Patterns: []string{"."}})
		for _, pos := range sortedKeys(base) {
			isWire := pos != "providers.go"
			plant := func(kind, name string, edit func(src string) string) {
				files := copyFiles(base)
				files[pos] = edit(files[pos])
				out = append(out, &c14Prog{Family: "I", Invalid: kind, Name: fmt.Sprintf("%s in %s of %d wire file(s)", name, pos, f), Pre: fmt.Sprintf("invalid=%s,files=%d,position=%s", kind, f, pos),
					Dirs: map[string]map[string]string{".": files}, Cwd: ".", Patterns: []string{"."}})
			}
			plant("syntax-error", "unbalanced declaration", func(s string) string { return s + "\nfunc (\n" })
			plant("syntax-error", "stray token", func(s string) string { return strings.Replace(s, "package app", "package app\n\n)", 1) })
			plant("type-error", "undefined identifier", func(s string) string { return s + "\nvar _ = NoSuchIdentifier\n" })
			plant("mixed-packages", "different package clause", func(s string) string { return strings.Replace(s, "package app", "package other", 1) })
			if isWire {
				plant("type-error", "undefined provider in a set", func(s string) string { return s + "\nvar BadSet = wire.NewSet(NoSuchProvider)\n" })
				plant("type-error", "wrong argument type to wire.Bind", func(s string) string { return s + "\nvar BadSet = wire.NewSet(MakeQ, wire.Bind(new(IQ), 42))\n" })
				plant("bind-without-constructor", "wire.Bind whose implementation has no New<T>", func(s string) string {
					return s + "\nvar QSet = wire.NewSet(MakeQ, wire.Bind(new(IQ), new(*Q)))\n"
				})
				plant("bind-without-constructor", "wire.Bind inside wire.Build, implementation has no New<T>", func(s string) string {
					return s + "\nfunc InitQ() IQ {\n\twire.Build(MakeQ, wire.Bind(new(IQ), new(*Q)))\n\treturn nil\n}\n"
				})
				if f > 1 && pos != "wire_a.go" {
					plant("duplicate-set-name", "set name of another file redeclared", func(s string) string { return s + "\nvar SetA = wire.NewSet(NewR)\n" })
				}
			}
		}
		// several packages in one invocation, at every pattern position
		other := func(pkg, set string) map[string]string {
			return map[string]string{
				"providers.go": "package " + pkg + "\n\ntype Z struct{ R string }\n\nfunc NewZ() *Z { return &Z{} }\n",
				"wire_z.go":    "//go:build wireinject\n\npackage " + pkg + "\n\nimport \"github.com/google/wire\"\n\nvar " + set + " = wire.NewSet(NewZ)\n",
			}
		}
		for _, order := range [][]string{{"./p", "./q"}, {"./q", "./p"}} {
			out = append(out, &c14Prog{Family: "I", Invalid: "mixed-packages", Name: fmt.Sprintf("two packages with different names in one invocation %v (%d wire file(s))", order, f), Pre: fmt.Sprintf("invalid=mixed-packages,files=%d,patterns=%s", f, strings.Join(order, "+")),
				Dirs: map[string]map[string]string{"p": base, "q": other("other", "SetZ")}, Cwd: ".", Patterns: order, OutDir: "p"})
			out = append(out, &c14Prog{Family: "I", Invalid: "duplicate-set-name", Name: fmt.Sprintf("two packages of one name that both declare SetA, in one invocation %v (%d wire file(s))", order, f), Pre: fmt.Sprintf("invalid=duplicate-set-name,files=%d,patterns=%s", f, strings.Join(order, "+")),
				Dirs: map[string]map[string]string{"p": base, "q": other("app", "SetA")}, Cwd: ".", Patterns: order, OutDir: "p"})
			out = append(out, &c14Prog{Family: "I", Invalid: "mixed-packages-of-one-name", Name: fmt.Sprintf("two different packages that share the name app, in one invocation %v (%d wire file(s))", order, f), Pre: fmt.Sprintf("invalid=mixed-packages-of-one-name,files=%d,patterns=%s", f, strings.Join(order, "+")),
				Dirs: map[string]map[string]string{"p": base, "q": other("app", "SetZ")}, Cwd: ".", Patterns: order, OutDir: "p"})
		}
	}
	return out
}

// ---------------------------------------------------------------------------------------------
// running one program

var reSetDecl = regexp.MustCompile(`(?m)^var (\w+) = wire\.NewSet\(`)

// expectedSets lists the set variables the input declares (in the package the output belongs to).
func (p *c14Prog) expectedSets() []string {
	var out []string
	for _, d := range sortedKeys(p.Dirs) {
		for _, f := range sortedKeys(p.Dirs[d]) {
			for _, m := range reSetDecl.FindAllStringSubmatch(p.Dirs[d][f], -1) {
				out = append(out, m[1])
			}
		}
	}
	sort.Strings(out)
	return out
}

func (p *c14Prog) add(kind, site, detail string, extra map[string]any) {
	rep := map[string]any{"dirs": p.Dirs, "cwd": p.Cwd, "command": "kessoku migrate -o kessoku.go " + strings.Join(p.Patterns, " "), "stderr": p.stderr, "output": p.out}
	if p.Cfg != nil {
		rep["config"] = p.Cfg
	}
	for k, v := range extra {
		rep[k] = v
	}
	p.findings = append(p.findings, Finding{Kind: kind, Site: site, Pre: p.Pre, Detail: detail, Witness: p.Family + ": " + p.Name, Replay: rep})
}

func sumOf(b []byte) string {
	h := sha256.Sum256(b)
	return hex.EncodeToString(h[:])
}

// runC14Prog performs all CLI runs of one program and the in-process parts of the oracle.
func runC14Prog(we *wireEnv, p *c14Prog, i int) {
	p.id = fmt.Sprintf("p%05d", i)
	root := filepath.Join(we.Dir, "c14", p.id)
	for d, files := range p.Dirs {
		mustOK(os.MkdirAll(filepath.Join(root, d), 0o755))
		for n, s := range files {
			mustOK(os.WriteFile(filepath.Join(root, d, n), []byte(s), 0o644))
		}
	}
	cwd := filepath.Join(root, p.Cwd)
	outPath := filepath.Join(cwd, "kessoku.go")
	procs := []string{"1", "4", "16"}
	run := func(k int) ([]byte, bool) {
		var msg string
		p.exit[k], msg = we.RunMigrate(cwd, "kessoku.go", []string{"GOMAXPROCS=" + procs[k]}, p.Patterns...)
		if k == 0 {
			p.stderr = msg
		}
		b, err := os.ReadFile(outPath)
		return b, err == nil
	}
	b0, wrote := run(0)
	p.wrote = wrote
	p.out = string(b0)
	if p.exit[0] != 0 {
		// failure branch, no previous file: nothing may have been written
		if wrote {
			p.add("output-written-on-failure", orStr(p.Invalid, "refused-input"), fmt.Sprintf("migrate exited %d (%s) but wrote %d bytes to the output path", p.exit[0], toolMessage(p.stderr), len(b0)), nil)
			_ = os.Remove(outPath)
		}
		// failure branch, previous file: must be untouched
		pkg := "app"
		if p.Cfg != nil {
			pkg = p.id
		}
		prev := []byte("package " + pkg + "\n\n// previous output, must survive a failed migration\n")
		mustOK(os.WriteFile(outPath, prev, 0o644))
		mustOK(os.Chtimes(outPath, oldTime, oldTime))
		b1, _ := run(1)
		st, err := os.Stat(outPath)
		switch {
		case p.exit[1] == 0:
			p.add("exit-status-differs-between-runs", orStr(p.Invalid, "refused-input"), fmt.Sprintf("first run exited %d, the run with a previous output file present exited 0", p.exit[0]), nil)
		case err != nil:
			p.add("output-modified-on-failure", orStr(p.Invalid, "refused-input"), "the previous output file was removed by a failing run", nil)
		case string(b1) != string(prev) || !st.ModTime().Equal(oldTime):
			p.add("output-modified-on-failure", orStr(p.Invalid, "refused-input"), fmt.Sprintf("a failing run (exit %d) touched the previous output file (content changed: %v, mtime %s)", p.exit[1], string(b1) != string(prev), st.ModTime().UTC().Format(time.RFC3339)), nil)
		}
		return
	}
	if p.Invalid != "" {
		p.add("invalid-input-accepted", p.Invalid, fmt.Sprintf("migrate exited 0 on an invalid input (output written: %v)", wrote), nil)
		return
	}
	if !wrote {
		return // exit 0 without output: the property speaks about written files only (counted)
	}
	p.sums[0] = sumOf(b0)
	// determinism: same input state, two more runs
	for k := 1; k <= 2; k++ {
		_ = os.Remove(outPath)
		b, ok := run(k)
		p.sums[k] = sumOf(b)
		if p.exit[k] != 0 || !ok {
			p.add("exit-status-differs-between-runs", "valid-input", fmt.Sprintf("run 1 (GOMAXPROCS=1) exited 0 and wrote the file, run %d (GOMAXPROCS=%s) exited %d (file written: %v)", k+1, procs[k], p.exit[k], ok), nil)
		} else if p.sums[k] != p.sums[0] {
			p.add("nondeterministic-output", "valid-input", fmt.Sprintf("run 1 (GOMAXPROCS=1) and run %d (GOMAXPROCS=%s) wrote different files", k+1, procs[k]), map[string]any{"other_output": string(b)})
		}
	}
	// history: a previous, LONGER output of an earlier migration is still at the output path (the configuration
	// shrank since): the new run must replace it completely
	// (only for inputs without set variables: a previous output that declares sets is, together with the wire
	// files, a package that does not type-check, and migrate refuses it - the failure branch above)
	prevLong := append(append([]byte(nil), b0...), []byte("\n// trailing declarations of an earlier, longer migration result\n// "+strings.Repeat("x", 400)+"\n")...)
	if len(p.expectedSets()) > 0 {
		// nothing to do
	} else if mustOK(os.WriteFile(outPath, prevLong, 0o644)); false {
	} else {
		// judged after the bulk compilation: a previous output that does not compile in the package (a known defect
		// for some inputs) is a legitimate reason for migrate to refuse the package
		bl, ok := run(0)
		p.histRan, p.histExit, p.histWrote, p.histSame, p.histLen = true, p.exit[0], ok, ok && sumOf(bl) == p.sums[0], len(bl)
		p.histOther = string(bl)
		p.exit[0] = 0
	}
	// gofmt
	if f, err := format.Source(b0); err != nil {
		p.add("output-does-not-parse", "go/format", err.Error(), nil)
		return
	} else if string(f) != string(b0) {
		p.add("not-gofmt-stable", firstDiffLine(string(b0), string(f)), "gofmt -l would list the migrated file", map[string]any{"gofmt": string(f)})
	}
	// set variables: each declared once, under its name
	fset := token.NewFileSet()
	af, err := parser.ParseFile(fset, "kessoku.go", b0, 0)
	if err != nil {
		p.add("output-does-not-parse", "go/parser", err.Error(), nil)
		return
	}
	var got []string
	for _, d := range af.Decls {
		if gd, ok := d.(*ast.GenDecl); ok && gd.Tok == token.VAR {
			for _, sp := range gd.Specs {
				for _, n := range sp.(*ast.ValueSpec).Names {
					if n.Name != "_" {
						got = append(got, n.Name)
					}
				}
			}
		}
	}
	sort.Strings(got)
	if want := p.expectedSets(); strings.Join(want, ",") != strings.Join(got, ",") {
		missing, extra := multisetDiff(want, got)
		p.add("set-declarations-differ", fmt.Sprintf("missing=%d,unexpected=%d", len(missing), len(extra)), fmt.Sprintf("the input declares the sets %v, the output declares %v", want, got), nil)
	}
	// stage the package for compilation: source package minus the wire files plus the output
	od := p.OutDir
	if od == "" {
		od = p.Cwd
	}
	cd := filepath.Join(we.Dir, "c14c", p.id)
	mustOK(os.MkdirAll(cd, 0o755))
	for n, s := range p.Dirs[od] {
		if !isWireFile(s) {
			mustOK(os.WriteFile(filepath.Join(cd, n), []byte(s), 0o644))
		}
	}
	mustOK(os.WriteFile(filepath.Join(cd, "kessoku.go"), b0, 0o644))
}

var reABConfig = regexp.MustCompile(`x/[ab]/config`)

// c14Diag turns a compiler diagnostic into a mechanism signature: position and indices stripped, the
// two interchangeable config packages unified; the message itself (which names the offending import
// or identifier) is kept.
func c14Diag(d string) string {
	d = regexp.MustCompile(`^\S+\.go:\d+:\d+: `).ReplaceAllString(d, "")
	d = reABConfig.ReplaceAllString(d, "x/<a|b>/config")
	d = generalize(d)
	if len(d) > 140 {
		d = d[:140]
	}
	return d
}

func firstDiffLine(a, b string) string {
	al, bl := strings.Split(a, "\n"), strings.Split(b, "\n")
	for i := 0; i < len(al) && i < len(bl); i++ {
		if al[i] != bl[i] {
			return "line-shape: " + generalize(strings.TrimSpace(al[i]))
		}
	}
	return "length"
}

func runC14(args []string) {
	tier := parseTier(args)
	rc := newRunCtx("C14", tier)
	rc.Level = "exploration"
	we := newWireEnv("c14", tier)
	defer we.Cleanup()
	thorough := rc.Thorough()

	var progs []*c14Prog
	// L: C13's configurations: the blocks that vary constructs, set structure and bindings (unused
	// injector arguments and a declared-only error result do not reach the migrated text)
	cfgs, rule := wireUniverse(tier)
	for _, c := range cfgs {
		if c.Block == "A" && (c.argMode() == "partly" || (c.Err && len(c.fallible()) == 0)) {
			continue
		}
		if c.Block == "B4" {
			continue // the n=4 shapes add nothing to the migrated text that n<=3 does not show
		}
		if c.Block == "B" && len(c.Nodes) == 3 && c.Sets == "flat" && !inAlphabet(c, leafKindsRed, depKindsRed) {
			continue // flat n=3 over the full alphabet: the text is the concatenation of n<=2 translations
		}
		progs = append(progs, &c14Prog{Family: "L", Name: c.Spec(), Pre: c.Features(), Cfg: c, Cwd: ".", Patterns: []string{"."}})
	}
	nL := len(progs)
	progs = append(progs, extPrograms(thorough)...)
	nX := len(progs) - nL
	progs = append(progs, invalidPrograms()...)
	exhaustive := true
	if st, _ := strconv.Atoi(os.Getenv("VERIF_WIRE_STRIDE")); st > 1 {
		var sub []*c14Prog
		for i := 0; i < len(progs); i += st {
			sub = append(sub, progs[i])
		}
		progs, exhaustive = sub, false
	}
	// external packages
	for _, key := range sortedKeys(extPkgs) {
		ep := extPkgs[key]
		d := filepath.Join(we.Dir, strings.TrimPrefix(ep.Path, "corpus/"))
		mustOK(os.MkdirAll(d, 0o755))
		mustOK(os.WriteFile(filepath.Join(d, "x.go"), []byte(extPkgSrc(ep.Name)), 0o644))
	}
	t0 := time.Now()
	pipe.Parallel(len(progs), 24, func(i int) {
		p := progs[i]
		if p.Cfg != nil {
			pkg := fmt.Sprintf("p%05d", i)
			files := p.Cfg.WireFiles(pkg)
			files["providers.go"] = p.Cfg.ProvidersSrc(pkg)
			p.Dirs = map[string]map[string]string{".": files}
		}
		runC14Prog(we, p, i)
	})
	// map iteration order inside internal/migrate: every permutation of every reached range-over-map site, on the
	// external-package programs and the multi-file bases (the ones whose output depends on several imports / sets)
	seamStats := c14MapOrder(we, rc, progs)
	t1 := time.Now()
	out, _ := bulkBuild(we.Dir, "build", "-buildvcs=false", "-gcflags=-e", "./c14c/...")
	errs := splitBuildErrors(string(out), "corpus/c14c/")
	rc.Notes = append(rc.Notes, fmt.Sprintf("%d programs: migrate runs %.0fs, compile %.0fs", len(progs), t1.Sub(t0).Seconds(), time.Since(t1).Seconds()))

	fam := map[string]int{}
	succeeded, refused, noOutput, invalidRefused := 0, 0, 0, 0
	refusals := map[string]int{}
	distinct := map[string]bool{}
	var samples []map[string]any
	for _, p := range progs {
		fam[p.Family]++
		switch {
		case p.exit[0] != 0 && p.Invalid != "":
			invalidRefused++
			refusals[p.Invalid+": "+generalize(toolMessage(p.stderr))]++
		case p.exit[0] != 0:
			refused++
			refusals["valid input: "+generalize(toolMessage(p.stderr))]++
		case !p.wrote:
			noOutput++
		case p.Invalid == "":
			succeeded++
			distinct[generalize(p.out)] = true
			if msg, bad := errs[p.id]; bad {
				d := firstDiag(msg)
				kind := "does-not-compile"
				if !strings.Contains(d, "kessoku.go:") {
					kind = "harness-input-does-not-compile" // the diagnostic is not in the migrated file: our own sources are broken
				}
				p.add(kind, c14Diag(d), "the package does not compile with the wire files set aside and the migrated file added: "+d, map[string]any{"compiler": msg})
			}
			if _, bad := errs[p.id]; !bad && p.histRan {
				switch {
				case p.histExit != 0 || !p.histWrote:
					p.add("exit-status-differs-between-runs", "valid-input", fmt.Sprintf("with a previous (longer, compiling) output file in place the run exited %d (file present: %v)", p.histExit, p.histWrote), nil)
				case !p.histSame:
					p.add("history-dependent-output", "previous-longer-output", fmt.Sprintf("a previous output file that is longer than the new result is not replaced completely: the result has %d bytes instead of %d", p.histLen, len(p.out)), map[string]any{"other_output": p.histOther})
				}
			}
			if len(samples) < 4 && succeeded%173 == int(rc.Seed%173)+1 {
				samples = append(samples, map[string]any{"family": p.Family, "input": p.Name, "output": p.out, "sha256_runs": p.sums})
			}
		}
		for _, f := range p.findings {
			rc.Add(f)
		}
	}
	if len(samples) == 0 && len(progs) > 0 {
		samples = append(samples, map[string]any{"family": progs[0].Family, "input": progs[0].Name, "output": progs[0].out})
	}
	rc.Coverage = map[string]any{
		"evaluations":                      len(progs),
		"distinct_nontrivial":              len(distinct),
		"rule":                             "L: C13's universe without the unused-argument / declared-only-error variants, without n=4 and without the flat n=3 configurations outside the reduced alphabet, i.e. " + rule + " X: ordered pairs of external packages {two packages named config, the same package twice, a package whose name differs from its directory, a package named s (the receiver name of generated FieldsOf accessors), a plain one} x use of the first {provider func, Value, Struct, Bind+ctor, FieldsOf, InterfaceValue, injector result type, field of a local struct, struct with a field named like the package, FieldsOf over a local struct next to it, injector parameter only} x use of the second {func, Value, Struct, InterfaceValue} (thorough: + Bind, FieldsOf, injector result, field of a local struct) x layout/spelling {same file: unaliased+alias, two aliases, both unaliased; two files: both unaliased, same alias for both, distinct aliases, one aliased; three files (the third uses a third package named config, or the plain one): unaliased} (thorough: + three files under one alias); plus layout same-set: both uses as elements of ONE wire.NewSet, second use in {func, Struct, FieldsOf, Bind} (thorough: + Value, InterfaceValue, struct with a field named like the package). Map order: the CLI rebuilt with every range-over-map of internal/migrate routed through a seam; for every successful X / M program every permutation of every reached site visit must reproduce the canonical output. M/I: valid local packages with 1..3 wire files and, planted at every file (providers.go included) or pattern position: syntax error (2 shapes), type error (3 shapes), different package clause, two packages in one invocation (different names / one name / one name + same set name), set redeclared in another file, wire.Bind without New<T> (in a set / in wire.Build). Every program: 3 CLI runs on success (GOMAXPROCS 1/4/16, output removed in between) plus one run over a previous, longer output file, 2 on failure (without / with a previous output file of known content and old mtime). distinct = distinct migrated texts modulo digits",
		"samples":                          samples,
		"exhaustive":                       exhaustive,
		"programs_by_family":               fam,
		"local_configurations":             nL,
		"external_package_programs":        nX,
		"succeeded_and_checked":            succeeded,
		"valid_inputs_refused_cleanly":     refused,
		"exit0_without_output_not_counted": noOutput,
		"invalid_inputs_refused":           invalidRefused,
		"refusal_messages":                 refusals,
		"tree_hash":                        we.env.Hash,
		"map_order":                        seamStats,
	}
	rc.Assume = []string{
		"imports == used packages is decided by the Go compiler (unused and missing imports are both compile errors)",
		"repeated runs start from the same input state (the previous output is removed): a kessoku.go left in the package is itself part of the next run's input",
		"map iteration order inside internal/migrate is enumerated through the seam of C11 (all k! orders per reached site for k <= 4, one deviating site visit at a time); scheduling is varied through GOMAXPROCS",
		"external set variables (pkg.Set) are not used: they stay wire sets after migrating one package",
	}
	we.Cleanup()
	rc.Finish()
}

// c14MapOrder re-runs the successful programs under a CLI whose range-over-map loops in internal/migrate go through
// the seam, once per permutation of every reached site visit; the output must equal the canonical one.
func c14MapOrder(we *wireEnv, rc *RunCtx, progs []*c14Prog) map[string]any {
	seamDir := filepath.Join(we.env.Work, "seam-c14")
	ov, err := seam.Build(pipe.GoBin, pipe.RepoDir(), pipe.RepoGoEnv(), "github.com/mazrean/kessoku", []string{"internal/migrate"}, seamDir)
	if err != nil {
		fmt.Println("SETUP-FAILED: map-order seam (internal/migrate):", err)
		os.Exit(2)
	}
	ovPath := filepath.Join(seamDir, "overlay.json")
	_ = ov.WriteJSON(ovPath)
	seamBin := filepath.Join(we.env.Work, "bin", "kessoku-seam-migrate")
	bcmd := exec.Command(pipe.GoBin, "build", "-buildvcs=false", "-tags", "verif", "-overlay", ovPath, "-o", seamBin, "./cmd/kessoku")
	bcmd.Dir = pipe.RepoDir()
	bcmd.Env = pipe.RepoGoEnv()
	if out, err := bcmd.CombinedOutput(); err != nil {
		fmt.Printf("SETUP-FAILED: building the CLI with the map-order seam: %v\n%s\n", err, out)
		os.Exit(2)
	}
	type job struct {
		p    *c14Prog
		spec string
	}
	var sel []*c14Prog
	for _, p := range progs {
		if (p.Family == "X" || p.Family == "M") && p.exit[0] == 0 && p.wrote && p.Invalid == "" {
			sel = append(sel, p)
		}
	}
	var mu sync.Mutex
	var jobs []job
	sites := map[string]bool{}
	exhaustive := true
	runSeam := func(p *c14Prog, tag string, extra ...string) (int, []byte, string) {
		// a private copy of the program's directory tree (parallel runs must not share the output file)
		src := filepath.Join(we.Dir, "c14", p.id)
		dst := filepath.Join(we.Dir, "c14s", p.id+"-"+tag)
		_ = os.RemoveAll(dst)
		mustOK(os.MkdirAll(filepath.Dir(dst), 0o755))
		if out, err := exec.Command("cp", "-a", src, dst).CombinedOutput(); err != nil {
			fmt.Println("EXPLORER-FAILED: cp:", string(out))
			os.Exit(2)
		}
		defer os.RemoveAll(dst)
		cwd := filepath.Join(dst, p.Cwd)
		_ = os.Remove(filepath.Join(cwd, "kessoku.go"))
		logf := filepath.Join(dst, ".seamlog")
		args := append([]string{"-l", "error", "migrate", "-o", "kessoku.go"}, p.Patterns...)
		code, _ := runTool(cwd, append([]string{"VERIF_SEAM_LOG=" + logf}, extra...), seamBin, args...)
		b, _ := os.ReadFile(filepath.Join(cwd, "kessoku.go"))
		lb, _ := os.ReadFile(logf)
		return code, b, string(lb)
	}
	// the copy lives under another directory name: package paths inside the corpus module change with it, so the
	// canonical text is the seam binary's own identity-order output (which must in turn equal the plain CLI's
	// output modulo that path)
	canon := make([][]byte, len(sel))
	pipe.Parallel(len(sel), 16, func(i int) {
		p := sel[i]
		code, b, log := runSeam(p, "id")
		if code != 0 || generalize(strings.ReplaceAll(string(b), "c14s/"+p.id+"-id", "c14/"+p.id)) != generalize(p.out) {
			mu.Lock()
			p.add("seam-baseline-differs", "harness", "the CLI built with the map-order seam (identity order) does not reproduce the canonical output; the seam would misrepresent the code", map[string]any{"seam_output": string(b)})
			rc.Add(p.findings[len(p.findings)-1])
			mu.Unlock()
			return
		}
		canon[i] = b
		for _, l := range strings.Split(strings.TrimSpace(log), "\n") {
			var site string
			var occ, k int
			var sortable bool
			if n, _ := fmt.Sscanf(l, "%s %d %d %t", &site, &occ, &k, &sortable); n != 4 || k < 2 {
				continue
			}
			perms, ex := seam.Permutations(k)
			mu.Lock()
			sites[site] = true
			if !ex || !sortable {
				exhaustive = false
			}
			if len(perms) > 30 {
				perms, exhaustive = perms[:30], false
			}
			for _, pm := range perms[1:] {
				var ps []string
				for _, x := range pm {
					ps = append(ps, fmt.Sprint(x))
				}
				jobs = append(jobs, job{p: p, spec: fmt.Sprintf("%s:%d:%s", site, occ, strings.Join(ps, ","))})
			}
			mu.Unlock()
		}
	})
	canonOf := map[*c14Prog][]byte{}
	for i, p := range sel {
		canonOf[p] = canon[i]
	}
	applied := 0
	pipe.Parallel(len(jobs), 16, func(j int) {
		jb := jobs[j]
		tag := fmt.Sprintf("j%d", j)
		code, b, log := runSeam(jb.p, tag, "VERIF_SEAM="+jb.spec)
		mu.Lock()
		defer mu.Unlock()
		if strings.Contains(log, "APPLIED "+jb.spec) {
			applied++
		}
		want := strings.ReplaceAll(string(canonOf[jb.p]), "c14s/"+jb.p.id+"-id", "c14s/"+jb.p.id+"-"+tag)
		if code != 0 || string(b) != want {
			site := jb.spec[:strings.IndexByte(jb.spec, ':')]
			jb.p.add("map-order-dependent-output", site, fmt.Sprintf("exit %d; the migrated file differs from the canonical one when the map at %s is iterated in another order (VERIF_SEAM=%s)", code, site, jb.spec), map[string]any{"seam": jb.spec, "got": string(b)})
			rc.Add(jb.p.findings[len(jb.p.findings)-1])
			jb.p.findings = jb.p.findings[:len(jb.p.findings)-1]
		}
	})
	if len(jobs) > 0 && applied < len(jobs)*9/10 {
		fmt.Printf("EXPLORER-FAILED: only %d of %d map-order permutations were actually applied by the seam\n", applied, len(jobs))
		os.Exit(2)
	}
	var sl []string
	for s := range sites {
		sl = append(sl, s)
	}
	sort.Strings(sl)
	var rewritten []string
	for _, st := range ov.Sites {
		rewritten = append(rewritten, st.File+":"+fmt.Sprint(st.Line)+" range "+st.Expr)
	}
	return map[string]any{"programs": len(sel), "range_over_map_sites_in_internal_migrate": rewritten, "sites_reached_with_two_or_more_keys": sl, "permutations_run": len(jobs), "permutations_applied": applied, "exhaustive_per_site": exhaustive, "skipped_by_rewriter": ov.Skipped}
}
