// Package sched is a hand-written controlled scheduler for instrumented Go code.
//
// Threads are real goroutines, but exactly one of them runs at any time. A thread
// parks *before* every visible operation (channel close / receive / select, WaitGroup,
// Once, context cancellation, provider entry and exit, shared-variable access sets,
// return) and announces the operation; the controller decides which parked thread is
// resumed next. Enabledness of blocking operations is evaluated by the controller on
// shadow state, so "no enabled thread" is a deadlock, not a hang.
//
// The explorer (explore.go) drives this scheduler through *all* interleavings of a
// closed program, pruning by a global state key (per-thread history hashes + shadow
// state of every synchronisation object).
package sched

import (
	"fmt"
	"reflect"
	"runtime"
	"sort"
	"strings"
	"sync"
)

type OpKind uint8

const (
	OpStart OpKind = iota
	OpYield
	OpAccess
	OpRecv
	OpSend
	OpClose
	OpSelect
	OpWGAdd
	OpWGDone
	OpWGWait
	OpOnce
	OpOnceEnd
	OpLock
	OpUnlock
	OpCancel
	OpCtxErr
	OpEnvCancel
	OpMainReturn
	OpSpawn
)

var opNames = [...]string{"start", "yield", "access", "recv", "send", "close", "select", "wg.add", "wg.done", "wg.wait",
	"once.do", "once.end", "lock", "unlock", "cancel", "ctx.err", "env.cancel", "main.return", "spawn"}

func (k OpKind) String() string { return opNames[k] }

// Op is an operation a thread is about to perform.
type Op struct {
	Kind       OpKind
	Obj        int // object id (channel, waitgroup, once, mutex, context); -1 if none
	N          int
	Label      string
	Args       []string
	Chans      []*Chan // select cases
	HasDefault bool
	Reads      []string
	Writes     []string
}

// Event is a completed operation.
type Event struct {
	Thread int
	Kind   OpKind
	Obj    int
	Res    int
	Label  string
	Args   []string
}

func (e Event) String() string {
	s := fmt.Sprintf("T%d %s", e.Thread, e.Kind)
	if e.Obj >= 0 {
		s += fmt.Sprintf("#%d", e.Obj)
	}
	if e.Label != "" {
		s += " " + e.Label
	}
	if len(e.Args) > 0 {
		s += "(" + strings.Join(e.Args, ",") + ")"
	}
	if e.Res != 0 {
		s += fmt.Sprintf(" =%d", e.Res)
	}
	return s
}

type Thread struct {
	ID      int
	Name    string
	Env     bool // environment thread (canceller): never counts as a leak
	w       *World
	resume  chan int
	pending *Op
	hist    [2]uint64
	done    bool
	exiting bool
	nev     int
	Site    string // last return-site label announced by this thread
	vc      VC     // vector clock (hb.go)
}

func (t *Thread) Done() bool    { return t.done }
func (t *Thread) Pending() *Op  { return t.pending }
func (t *Thread) World() *World { return t.w }

// Violation is a property-independent fact observed during an execution.
type Violation struct {
	Kind   string // deadlock | leak | double-close | race | read-before-write | panic | <user kinds>
	Detail string
	Step   int
}

type Chan struct {
	ID     int
	Name   string
	Cap    int
	Buf    int
	Closed bool
	closer int
}

type wgState struct{ n int }
type onceState struct{ st int } // 0 fresh, 1 running, 2 done
type muState struct{ locked bool }

// CtxState is the shadow of a vctx context.
type CtxState struct {
	ID       int
	Err      string // "" while live
	Cause    string
	Children []int
	Done     *Chan
}

type World struct {
	Threads  []*Thread
	ctl      chan *Thread
	running  *Thread
	poison   bool
	join     sync.WaitGroup
	chans    []*Chan
	chanByP  map[uintptr]*Chan
	objID    map[any]int
	wgs      []*wgState
	onces    []*onceState
	mus      []*muState
	Ctxs     []*CtxState
	Log      []Event
	KeepLog  bool
	OnEvent  func(w *World, t *Thread, ev *Event)
	MainRet  bool
	MainSite string
	Viol     []Violation
	written  map[string]bool
	lastW    map[string]int
	User     any
	Steps    int
	// Unsupported is set when instrumented code used a construct the shadow model does not cover.
	Unsupported string
	// happens-before tracking (hb.go)
	objClk map[ObjKey]*objClock
	varID  map[string]int
	Trace  []Step
}

var cur *World

// Cur returns the world of the execution in progress (nil when free-running).
func Cur() *World { return cur }

func NewWorld() *World {
	return &World{
		ctl:     make(chan *Thread),
		chanByP: map[uintptr]*Chan{},
		objID:   map[any]int{},
		written: map[string]bool{},
		lastW:   map[string]int{},
		objClk:  map[ObjKey]*objClock{},
		varID:   map[string]int{},
	}
}

func (w *World) Violate(kind, detail string) {
	w.Viol = append(w.Viol, Violation{Kind: kind, Detail: detail, Step: w.Steps})
}

func (w *World) Running() *Thread { return w.running }

func (w *World) newThread(name string, env bool, fn func()) *Thread {
	t := &Thread{ID: len(w.Threads), Name: name, Env: env, w: w, resume: make(chan int)}
	t.hist = [2]uint64{0xcbf29ce484222325 ^ uint64(t.ID+1)*0x9E3779B97F4A7C15, 0x84222325cbf29ce4 + uint64(t.ID+1)}
	t.pending = &Op{Kind: OpStart, Obj: -1, Label: name}
	if p := w.running; p != nil {
		t.vc = cloneVC(p.vc) // spawn edge
	}
	w.Threads = append(w.Threads, t)
	w.join.Add(1)
	go func() {
		defer w.join.Done()
		defer func() {
			r := recover()
			if t.exiting {
				return
			}
			if r != nil {
				buf := make([]byte, 2048)
				buf = buf[:runtime.Stack(buf, false)]
				w.Violate("panic", fmt.Sprintf("thread %s: %v\n%s", t.Name, r, buf))
			}
			t.done = true
			t.pending = nil
			w.ctl <- t
		}()
		<-t.resume
		if w.poison {
			t.exiting = true
			return
		}
		w.commit(t, t.pending, 0)
		t.pending = nil
		t.record(Event{Kind: OpStart, Obj: -1, Label: name})
		fn()
	}()
	return t
}

// park announces op and blocks until the controller resumes this thread. It returns the
// chosen alternative (select case index; 0 otherwise) and ok=false when the thread is
// being torn down (the caller must then behave as a no-op).
func (w *World) park(op *Op) (alt int, ok bool) {
	t := w.running
	if w.poison || t == nil || t.exiting {
		return 0, false
	}
	t.pending = op
	w.ctl <- t
	alt = <-t.resume
	if w.poison {
		t.exiting = true
		runtime.Goexit()
	}
	w.commit(t, op, alt)
	t.pending = nil
	return alt, true
}

func mix(h *[2]uint64, x uint64) {
	h[0] = (h[0] ^ x) * 0x100000001b3
	h[0] ^= h[0] >> 29
	h[1] = (h[1] + x + 0x9E3779B97F4A7C15) * 0xff51afd7ed558ccd
	h[1] ^= h[1] >> 31
}

func mixs(h *[2]uint64, s string) {
	mix(h, uint64(len(s))+0x1f)
	for i := 0; i < len(s); i++ {
		mix(h, uint64(s[i]))
	}
}

func (t *Thread) record(ev Event) {
	ev.Thread = t.ID
	t.nev++
	mix(&t.hist, uint64(ev.Kind)+1)
	mix(&t.hist, uint64(int64(ev.Obj)+7))
	mix(&t.hist, uint64(int64(ev.Res)+3))
	mixs(&t.hist, ev.Label)
	for _, a := range ev.Args {
		mixs(&t.hist, a)
	}
	w := t.w
	w.Steps++
	if w.KeepLog {
		w.Log = append(w.Log, ev)
	}
	if w.OnEvent != nil {
		w.OnEvent(w, t, &ev)
	}
}

// Alt is one schedulable alternative: resume thread T with alternative index Alt.
type Alt struct {
	T   *Thread
	Alt int
}

func (w *World) opEnabled(t *Thread, op *Op, out []Alt) []Alt {
	switch op.Kind {
	case OpRecv:
		c := w.chans[op.Obj]
		if c.Closed || c.Buf > 0 {
			out = append(out, Alt{t, 0})
		}
	case OpSend:
		c := w.chans[op.Obj]
		if c.Closed || c.Buf < c.Cap {
			out = append(out, Alt{t, 0})
		}
	case OpSelect:
		n := 0
		for i, c := range op.Chans {
			if c != nil && (c.Closed || c.Buf > 0) {
				out = append(out, Alt{t, i})
				n++
			}
		}
		if n == 0 && op.HasDefault {
			out = append(out, Alt{t, len(op.Chans)})
		}
	case OpWGWait:
		if w.wgs[op.Obj].n == 0 {
			out = append(out, Alt{t, 0})
		}
	case OpOnce:
		if w.onces[op.Obj].st != 1 {
			out = append(out, Alt{t, 0})
		}
	case OpLock:
		if !w.mus[op.Obj].locked {
			out = append(out, Alt{t, 0})
		}
	case OpEnvCancel:
		if !w.MainRet {
			out = append(out, Alt{t, 0})
		}
	default:
		out = append(out, Alt{t, 0})
	}
	return out
}

// Enabled lists all alternatives in canonical order: the thread that ran last first (if it is
// still enabled), then ascending thread ids.
func (w *World) Enabled() []Alt {
	var out []Alt
	if r := w.running; r != nil && !r.done && r.pending != nil {
		out = w.opEnabled(r, r.pending, out)
	}
	for _, t := range w.Threads {
		if t == w.running || t.done || t.pending == nil {
			continue
		}
		out = w.opEnabled(t, t.pending, out)
	}
	return out
}

// checkRaces reports co-enabled conflicting access sets (complete for SC executions when the
// whole state space is explored).
func (w *World) checkRaces() {
	var acc []*Thread
	for _, t := range w.Threads {
		if !t.done && t.pending != nil && t.pending.Kind == OpAccess {
			acc = append(acc, t)
		}
	}
	for i := 0; i < len(acc); i++ {
		for j := i + 1; j < len(acc); j++ {
			a, b := acc[i].pending, acc[j].pending
			if v := conflict(a, b); v != "" {
				w.Violate("race", fmt.Sprintf("variable %s: %s [%s] || %s [%s]", v, acc[i].Name, a.Label, acc[j].Name, b.Label))
			}
		}
	}
}

func conflict(a, b *Op) string {
	for _, x := range a.Writes {
		for _, y := range b.Writes {
			if x == y {
				return x
			}
		}
		for _, y := range b.Reads {
			if x == y {
				return x
			}
		}
	}
	for _, x := range b.Writes {
		for _, y := range a.Reads {
			if x == y {
				return x
			}
		}
	}
	return ""
}

// Chooser decides which alternative runs next; -1 stops the execution (cut).
type Chooser interface {
	Choose(w *World, alts []Alt) int
}

// Run executes main as thread 0 under the chooser until no alternative is enabled or the
// chooser cuts the execution, then tears all threads down.
func (w *World) Run(main func(), ch Chooser) (cut bool) {
	if cur != nil {
		panic("sched: nested worlds")
	}
	cur = w
	defer func() { cur = nil }()
	w.newThread("main", false, main)
	for {
		alts := w.Enabled()
		w.checkRaces()
		idx := ch.Choose(w, alts)
		if idx < 0 || len(alts) == 0 {
			cut = idx < 0 && len(alts) > 0
			break
		}
		a := alts[idx]
		w.running = a.T
		a.T.resume <- a.Alt
		<-w.ctl
	}
	// teardown: poison every parked thread
	w.poison = true
	for _, t := range w.Threads {
		if !t.done {
			t.resume <- 0
		}
	}
	w.join.Wait()
	return cut
}

// Live returns non-environment threads that have not finished.
func (w *World) Live() []*Thread {
	var out []*Thread
	for _, t := range w.Threads {
		if !t.done && !t.Env {
			out = append(out, t)
		}
	}
	return out
}

func (w *World) DescribePending(t *Thread) string {
	op := t.pending
	if op == nil {
		return "running"
	}
	switch op.Kind {
	case OpRecv:
		return "recv(" + w.chans[op.Obj].Name + ")"
	case OpSelect:
		var n []string
		for _, c := range op.Chans {
			if c == nil {
				n = append(n, "nil")
			} else {
				n = append(n, c.Name)
			}
		}
		return "select(" + strings.Join(n, "|") + ")"
	case OpWGWait:
		return "wg.wait"
	}
	return op.Kind.String()
}

// Key is the global state key used for pruning.
type Key [2]uint64

func (w *World) Key() Key {
	h := [2]uint64{0x6a09e667f3bcc908, 0xbb67ae8584caa73b}
	for _, t := range w.Threads {
		mix(&h, uint64(t.ID))
		mix(&h, t.hist[0])
		mix(&h, t.hist[1])
		if t.done {
			mix(&h, 0xd0)
		} else if t.pending != nil {
			mix(&h, uint64(t.pending.Kind)+0x10)
			if t.pending.Kind == OpYield || t.pending.Kind == OpMainReturn {
				// the announced operation carries observations (argument terms, outcome) the thread already made
				mixs(&h, t.pending.Label)
				for _, a := range t.pending.Args {
					mixs(&h, a)
				}
			}
		}
	}
	for _, c := range w.chans {
		x := uint64(c.Buf) << 1
		if c.Closed {
			x |= 1
		}
		mix(&h, x+0x100)
	}
	for _, g := range w.wgs {
		mix(&h, uint64(int64(g.n))+0x200)
	}
	for _, o := range w.onces {
		mix(&h, uint64(o.st)+0x300)
	}
	for _, m := range w.mus {
		if m.locked {
			mix(&h, 0x401)
		} else {
			mix(&h, 0x400)
		}
	}
	for _, c := range w.Ctxs {
		mixs(&h, c.Err)
		mixs(&h, c.Cause)
	}
	if w.MainRet {
		mix(&h, 0x777)
	}
	if len(w.lastW) > 0 {
		ks := make([]string, 0, len(w.lastW))
		for k := range w.lastW {
			ks = append(ks, k)
		}
		sort.Strings(ks)
		for _, k := range ks {
			mixs(&h, k)
			mix(&h, uint64(w.lastW[k]))
		}
	}
	return Key(h)
}

// ---------------------------------------------------------------------------------------------
// Operations used by instrumented code. Every one of them is a no-op wrapper around the real
// operation when no world is active (free-running mode).

// Go starts fn as a new controlled thread.
func Go(fn func()) {
	w := cur
	if w == nil {
		go fn()
		return
	}
	if w.poison || w.running == nil || w.running.exiting {
		return
	}
	t := w.running
	nt := w.newThread(fmt.Sprintf("g%d", len(w.Threads)), false, fn)
	t.record(Event{Kind: OpSpawn, Obj: nt.ID})
}

// GoEnv starts an environment thread (never reported as a leak).
func GoEnv(name string, fn func()) {
	w := cur
	t := w.running
	nt := w.newThread(name, true, fn)
	t.record(Event{Kind: OpSpawn, Obj: nt.ID})
}

// Yield is a labelled visible step (provider entry/exit).
func Yield(label string, args ...string) {
	w := cur
	if w == nil {
		return
	}
	if _, ok := w.park(&Op{Kind: OpYield, Obj: -1, Label: label, Args: args}); !ok {
		return
	}
	w.running.record(Event{Kind: OpYield, Obj: -1, Label: label, Args: args})
}

// Access announces the shared variables the next statement reads and writes.
func Access(label string, reads, writes []string) {
	w := cur
	if w == nil {
		return
	}
	if _, ok := w.park(&Op{Kind: OpAccess, Obj: -1, Label: label, Reads: reads, Writes: writes}); !ok {
		return
	}
	t := w.running
	for _, r := range reads {
		if !w.written[r] {
			w.Violate("read-before-write", fmt.Sprintf("variable %s read by %s at [%s] before any write", r, t.Name, label))
		}
		// reads-from enters the reader's history: what a thread does next may depend on WHICH write it saw, and
		// that is not visible anywhere else until the value is passed on (two states that differ only in what a
		// parked thread has already read must not be merged by the state key)
		mixs(&t.hist, "rf:"+r)
		mix(&t.hist, uint64(w.lastW[r])+0x51)
	}
	t.record(Event{Kind: OpAccess, Obj: -1, Label: label})
}

// Init marks variables as initialised (parameters, variables declared with an initialiser).
func Init(vars ...string) {
	w := cur
	if w == nil || w.poison || w.running == nil || w.running.exiting {
		return
	}
	for _, v := range vars {
		w.written[v] = true
	}
}

// Wrote records that the running thread has just written vars (bookkeeping, not a scheduling point).
func Wrote(vars ...string) {
	w := cur
	if w == nil || w.poison || w.running == nil || w.running.exiting {
		return
	}
	t := w.running
	for _, v := range vars {
		w.written[v] = true
		w.lastW[v] = t.ID*100000 + t.nev
	}
}

// Site labels the return statement the running thread is about to execute.
func Site(label string) {
	w := cur
	if w == nil || w.poison || w.running == nil || w.running.exiting {
		return
	}
	w.running.Site = label
	mixs(&w.running.hist, "site:"+label)
}

// MainReturn is called by the harness right after the injector returned on the main thread.
func MainReturn(outcome string) {
	w := cur
	if w == nil {
		return
	}
	if _, ok := w.park(&Op{Kind: OpMainReturn, Obj: -1, Label: outcome}); !ok {
		return
	}
	w.MainRet = true
	w.MainSite = w.running.Site
	w.running.record(Event{Kind: OpMainReturn, Obj: -1, Label: outcome})
}

// EnvCancelPoint parks an environment thread until the controller lets the cancellation happen;
// it is disabled once the main thread has returned.
func EnvCancelPoint() bool {
	w := cur
	if _, ok := w.park(&Op{Kind: OpEnvCancel, Obj: -1}); !ok {
		return false
	}
	w.running.record(Event{Kind: OpEnvCancel, Obj: -1})
	return true
}

// ---- channels --------------------------------------------------------------------------------

func chanPtr(ch any) uintptr {
	v := reflect.ValueOf(ch)
	if v.Kind() != reflect.Chan {
		panic(fmt.Sprintf("sched: not a channel: %T", ch))
	}
	return v.Pointer()
}

func (w *World) shadow(ch any, name string, capacity int) *Chan {
	p := chanPtr(ch)
	if p == 0 {
		return nil
	}
	if c, ok := w.chanByP[p]; ok {
		return c
	}
	c := &Chan{ID: len(w.chans), Name: name, Cap: capacity, closer: -1}
	if c.Name == "" {
		c.Name = fmt.Sprintf("ch%d", c.ID)
	}
	w.chans = append(w.chans, c)
	w.chanByP[p] = c
	return c
}

// RegisterChan gives an existing real channel a shadow (used by vctx for Done channels).
func (w *World) RegisterChan(ch any, name string) *Chan {
	return w.shadow(ch, name, reflect.ValueOf(ch).Cap())
}

// MakeChan replaces make(chan T, n).
func MakeChan[T any](n int, name string) chan T {
	ch := make(chan T, n)
	if w := cur; w != nil && !w.poison && w.running != nil && !w.running.exiting {
		w.shadow(ch, name, n)
	}
	return ch
}

// Recv replaces <-ch. Only receives that are enabled by a close or by buffered data are modelled.
func Recv[T any](ch <-chan T) T {
	v, _ := Recv2(ch)
	return v
}

func Recv2[T any](ch <-chan T) (T, bool) {
	w := cur
	var zero T
	if w == nil {
		v, ok := <-ch
		return v, ok
	}
	if ch == nil {
		// receive from nil channel blocks forever
		c := &Chan{ID: len(w.chans), Name: "nil", closer: -1}
		w.chans = append(w.chans, c)
		if _, ok := w.park(&Op{Kind: OpRecv, Obj: c.ID}); !ok {
			return zero, false
		}
		panic("unreachable")
	}
	c := w.shadow(ch, "", cap(ch))
	if _, ok := w.park(&Op{Kind: OpRecv, Obj: c.ID}); !ok {
		return zero, false
	}
	t := w.running
	if c.Buf > 0 {
		c.Buf--
		v := <-ch
		t.record(Event{Kind: OpRecv, Obj: c.ID, Res: 1})
		return v, true
	}
	t.record(Event{Kind: OpRecv, Obj: c.ID, Res: 0})
	return zero, false
}

// Send replaces ch <- v for buffered channels.
func Send[T any](ch chan<- T, v T) {
	w := cur
	if w == nil {
		ch <- v
		return
	}
	c := w.shadow(ch, "", cap(ch))
	if c == nil || c.Cap == 0 {
		w.Unsupported = "send on unbuffered or nil channel"
		w.Violate("unsupported", w.Unsupported)
		w.park(&Op{Kind: OpRecv, Obj: w.deadChan().ID})
		return
	}
	if _, ok := w.park(&Op{Kind: OpSend, Obj: c.ID}); !ok {
		return
	}
	if c.Closed {
		w.Violate("send-on-closed", c.Name)
		panic("send on closed channel")
	}
	c.Buf++
	ch <- v
	w.running.record(Event{Kind: OpSend, Obj: c.ID})
}

func (w *World) deadChan() *Chan {
	c := &Chan{ID: len(w.chans), Name: "dead", closer: -1}
	w.chans = append(w.chans, c)
	return c
}

// Close replaces close(ch).
func Close[T any](ch chan<- T) {
	w := cur
	if w == nil {
		close(ch)
		return
	}
	c := w.shadow(ch, "", cap(ch))
	obj := -1
	if c != nil {
		obj = c.ID
	}
	if _, ok := w.park(&Op{Kind: OpClose, Obj: obj}); !ok {
		return
	}
	t := w.running
	if c == nil {
		w.Violate("close-nil", "close of nil channel by "+t.Name)
		t.record(Event{Kind: OpClose, Obj: -1, Res: 2})
		return
	}
	if c.Closed {
		w.Violate("double-close", fmt.Sprintf("channel %s closed by %s, already closed by T%d", c.Name, t.Name, c.closer))
		t.record(Event{Kind: OpClose, Obj: c.ID, Res: 1})
		return
	}
	c.Closed = true
	c.closer = t.ID
	close(ch)
	t.record(Event{Kind: OpClose, Obj: c.ID})
}

// CloseShadow closes a registered channel's shadow and the real channel (used by vctx).
func (w *World) CloseShadow(c *Chan, real chan struct{}) {
	if !c.Closed {
		c.Closed = true
		c.closer = w.running.ID
		close(real)
	}
}

// Select replaces a select statement whose cases are all receives. It returns the index of the
// chosen case, or -1 for default.
func Select(hasDefault bool, chans ...any) int {
	w := cur
	if w == nil {
		cases := make([]reflect.SelectCase, 0, len(chans)+1)
		for _, ch := range chans {
			cases = append(cases, reflect.SelectCase{Dir: reflect.SelectRecv, Chan: reflect.ValueOf(ch)})
		}
		if hasDefault {
			cases = append(cases, reflect.SelectCase{Dir: reflect.SelectDefault})
		}
		i, _, _ := reflect.Select(cases)
		if hasDefault && i == len(chans) {
			return -1
		}
		return i
	}
	op := &Op{Kind: OpSelect, Obj: -1, HasDefault: hasDefault}
	for _, ch := range chans {
		op.Chans = append(op.Chans, w.shadow(ch, "", reflect.ValueOf(ch).Cap()))
	}
	alt, ok := w.park(op)
	if !ok {
		return -2
	}
	t := w.running
	if alt == len(chans) {
		t.record(Event{Kind: OpSelect, Obj: -1, Res: -1})
		return -1
	}
	c := op.Chans[alt]
	if c.Buf > 0 {
		c.Buf--
		reflect.ValueOf(chans[alt]).Recv()
	}
	t.record(Event{Kind: OpSelect, Obj: c.ID, Res: alt + 1})
	return alt
}

// ---- sync shims' primitives ------------------------------------------------------------------

func (w *World) idOf(p any, mk func() int) int {
	if id, ok := w.objID[p]; ok {
		return id
	}
	id := mk()
	w.objID[p] = id
	return id
}

func WGAdd(p any, n int) {
	w := cur
	if w == nil || w.poison || w.running == nil || w.running.exiting {
		return
	}
	id := w.idOf(p, func() int { w.wgs = append(w.wgs, &wgState{}); return len(w.wgs) - 1 })
	kind := OpWGAdd
	if n < 0 {
		kind = OpWGDone
	}
	if _, ok := w.park(&Op{Kind: kind, Obj: id, N: n}); !ok {
		return
	}
	w.wgs[id].n += n
	if w.wgs[id].n < 0 {
		w.Violate("negative-waitgroup", "")
	}
	w.running.record(Event{Kind: kind, Obj: id, Res: n})
}

func WGWait(p any) {
	w := cur
	if w == nil || w.poison || w.running == nil || w.running.exiting {
		return
	}
	id := w.idOf(p, func() int { w.wgs = append(w.wgs, &wgState{}); return len(w.wgs) - 1 })
	if _, ok := w.park(&Op{Kind: OpWGWait, Obj: id}); !ok {
		return
	}
	w.running.record(Event{Kind: OpWGWait, Obj: id})
}

// OnceBegin returns true when the caller must run the function and then call OnceEnd.
func OnceBegin(p any) bool {
	w := cur
	if w == nil || w.poison || w.running == nil || w.running.exiting {
		return false
	}
	id := w.idOf(p, func() int { w.onces = append(w.onces, &onceState{}); return len(w.onces) - 1 })
	if _, ok := w.park(&Op{Kind: OpOnce, Obj: id}); !ok {
		return false
	}
	o := w.onces[id]
	if o.st == 0 {
		o.st = 1
		w.running.record(Event{Kind: OpOnce, Obj: id, Res: 1})
		return true
	}
	w.running.record(Event{Kind: OpOnce, Obj: id, Res: 0})
	return false
}

func OnceEnd(p any) {
	w := cur
	if w == nil || w.poison || w.running == nil || w.running.exiting {
		return
	}
	id := w.objID[p]
	if _, ok := w.park(&Op{Kind: OpOnceEnd, Obj: id}); !ok {
		return
	}
	w.onces[id].st = 2
	w.running.record(Event{Kind: OpOnceEnd, Obj: id})
}

func Lock(p any) {
	w := cur
	if w == nil || w.poison || w.running == nil || w.running.exiting {
		return
	}
	id := w.idOf(p, func() int { w.mus = append(w.mus, &muState{}); return len(w.mus) - 1 })
	if _, ok := w.park(&Op{Kind: OpLock, Obj: id}); !ok {
		return
	}
	w.mus[id].locked = true
	w.running.record(Event{Kind: OpLock, Obj: id})
}

func Unlock(p any) {
	w := cur
	if w == nil || w.poison || w.running == nil || w.running.exiting {
		return
	}
	id := w.idOf(p, func() int { w.mus = append(w.mus, &muState{}); return len(w.mus) - 1 })
	if _, ok := w.park(&Op{Kind: OpUnlock, Obj: id}); !ok {
		return
	}
	if !w.mus[id].locked {
		w.Violate("unlock-of-unlocked", "")
	}
	w.mus[id].locked = false
	w.running.record(Event{Kind: OpUnlock, Obj: id})
}

// ---- contexts --------------------------------------------------------------------------------

// NewCtx registers a context shadow; done is the real channel returned by Done().
func (w *World) NewCtx(parent int, done chan struct{}) *CtxState {
	c := &CtxState{ID: len(w.Ctxs)}
	c.Done = w.shadow(done, fmt.Sprintf("ctx%d.Done", c.ID), 0)
	w.Ctxs = append(w.Ctxs, c)
	if parent >= 0 {
		p := w.Ctxs[parent]
		p.Children = append(p.Children, c.ID)
	}
	return c
}

// CancelPoint parks before a cancellation of context id; returns false during teardown.
func CancelPoint(id int, label string) bool {
	w := cur
	if w == nil || w.poison || w.running == nil || w.running.exiting {
		return false
	}
	if _, ok := w.park(&Op{Kind: OpCancel, Obj: id, Label: label}); !ok {
		return false
	}
	return true
}

func CancelDone(id int, first bool, label string) {
	w := cur
	res := 0
	if first {
		res = 1
	}
	w.running.record(Event{Kind: OpCancel, Obj: id, Res: res, Label: label})
}

// CtxErrPoint parks before reading a context's error.
func CtxErrPoint(id int) bool {
	w := cur
	if w == nil || w.poison || w.running == nil || w.running.exiting {
		return false
	}
	if _, ok := w.park(&Op{Kind: OpCtxErr, Obj: id}); !ok {
		return false
	}
	return true
}

func CtxErrDone(id int, err string) {
	w := cur
	w.running.record(Event{Kind: OpCtxErr, Obj: id, Label: err})
}
