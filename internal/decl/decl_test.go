package decl

import (
	"fmt"
	"testing"
)

func TestUniverseCounts(t *testing.T) {
	for _, tier := range []string{"quick", "thorough"} {
		u := Universe(tier)
		refuse := 0
		for _, d := range u {
			r := Reference(d)
			if r.Refuse != "" {
				refuse++
				t.Errorf("universe member refused by reference: %s: %s", d.Spec(), r.Refuse)
			}
		}
		fmt.Println(tier, len(u), "refused", refuse)
	}
	u := Universe("quick")
	for _, i := range []int{0, 100, 900, len(u) - 1} {
		d := u[i]
		r := Reference(d)
		fmt.Println(d.Spec(), "\n  note:", d.Note, "\n  =>", r.Term, r.Params, r.HasCtx, r.HasErr, r.Needed, r.InputFree)
	}
	fmt.Println(u[len(u)-1].Emit("p"))
}
