package main

import (
	"crypto/sha256"
	"encoding/hex"
	"fmt"
	"io/fs"
	"os"
	"path/filepath"
	"regexp"
	"sort"
	"strings"
	"syscall"

	"verif/internal/pipe"
	"verif/internal/ptracer"
)

type fileState struct {
	Mode os.FileMode
	Sum  string
	Dir  bool
}

// snapshot records every path under root with mode and content hash.
func snapshot(root string) map[string]fileState {
	out := map[string]fileState{}
	_ = filepath.WalkDir(root, func(p string, d fs.DirEntry, err error) error {
		if err != nil {
			return nil
		}
		rel, _ := filepath.Rel(root, p)
		if rel == "." {
			return nil
		}
		info, err := d.Info()
		if err != nil {
			return nil
		}
		if d.IsDir() {
			out[rel] = fileState{Mode: info.Mode().Perm(), Dir: true}
			return nil
		}
		b, _ := os.ReadFile(p)
		h := sha256.Sum256(b)
		// a symbolic link is recorded as such (mode bit), with the content it resolves to
		out[rel] = fileState{Mode: info.Mode() & (os.ModePerm | os.ModeSymlink), Sum: hex.EncodeToString(h[:])}
		return nil
	})
	return out
}

// embeddedTree reads the skill tree from the working tree (what the binary embeds).
func embeddedTree() map[string]string {
	src := filepath.Join(pipe.RepoDir(), "internal", "llmsetup", "skills", "kessoku-di")
	out := map[string]string{}
	_ = filepath.WalkDir(src, func(p string, d fs.DirEntry, err error) error {
		if err != nil || d.IsDir() {
			return nil
		}
		rel, _ := filepath.Rel(src, p)
		b, _ := os.ReadFile(p)
		h := sha256.Sum256(b)
		out[rel] = hex.EncodeToString(h[:])
		return nil
	})
	return out
}

type c15Scenario struct {
	Agent string
	Args  []string
	Base  string // relative to root
	Prior string // fresh | older | leftover-tmp
}

func (s c15Scenario) String() string {
	return fmt.Sprintf("llm-setup %s %s [prior state: %s]", s.Agent, strings.Join(s.Args, " "), s.Prior)
}

func prepareRoot(root string, sc c15Scenario, emb map[string]string) {
	_ = os.RemoveAll(root)
	_ = os.MkdirAll(filepath.Join(root, "home"), 0o755)
	_ = os.MkdirAll(filepath.Join(root, "proj"), 0o755)
	skill := filepath.Join(root, sc.Base, "kessoku-di")
	switch sc.Prior {
	case "older":
		for rel := range emb {
			p := filepath.Join(skill, rel)
			_ = os.MkdirAll(filepath.Dir(p), 0o755)
			_ = os.WriteFile(p, []byte("older content of "+rel+"\n"), 0o600)
			_ = os.Chmod(p, 0o600)
		}
		_ = os.WriteFile(filepath.Join(skill, "EXTRA.md"), []byte("a file of an older release\n"), 0o644)
	case "same-content-other-modes", "same-content-symlinks":
		// an installation whose files already have the embedded content, but not the final permissions (restored
		// from a backup, umask 077, made read-only) or that are symbolic links to identical copies kept elsewhere
		modes := []os.FileMode{0o600, 0o664, 0o444, 0o640}
		var rels []string
		for rel := range emb {
			rels = append(rels, rel)
		}
		sort.Strings(rels)
		src := filepath.Join(pipe.RepoDir(), "internal", "llmsetup", "skills", "kessoku-di")
		for i, rel := range rels {
			p := filepath.Join(skill, rel)
			_ = os.MkdirAll(filepath.Dir(p), 0o755)
			b, _ := os.ReadFile(filepath.Join(src, rel))
			if sc.Prior == "same-content-symlinks" {
				store := filepath.Join(root, "home", "store", rel)
				_ = os.MkdirAll(filepath.Dir(store), 0o755)
				_ = os.WriteFile(store, b, 0o600)
				_ = os.Symlink(store, p)
				continue
			}
			_ = os.WriteFile(p, b, 0o600)
			_ = os.Chmod(p, modes[i%len(modes)])
		}
	case "leftover-tmp":
		_ = os.MkdirAll(filepath.Join(skill, "references"), 0o755)
		_ = os.WriteFile(filepath.Join(skill, ".tmp-111111"), []byte("torn"), 0o600)
		_ = os.WriteFile(filepath.Join(skill, "references", ".tmp-222222"), []byte("torn"), 0o600)
	}
}

var reTmp = regexp.MustCompile(`\.tmp-[0-9]+`)

func normEvent(e ptracer.Event, root string) string {
	p := strings.TrimPrefix(e.Path, root)
	p2 := strings.TrimPrefix(e.Path2, root)
	return e.Name + " " + reTmp.ReplaceAllString(p, ".tmp-*") + " " + reTmp.ReplaceAllString(p2, ".tmp-*")
}

func tmpFiles(snap map[string]fileState) map[string]bool {
	out := map[string]bool{}
	for p := range snap {
		if strings.Contains(filepath.Base(p), ".tmp-") {
			out[p] = true
		}
	}
	return out
}

func runC15(args []string) {
	tier := parseTier(args)
	rc := newRunCtx("C15", tier)
	rc.Level = "fault_enumeration"
	env := pipe.Setup()
	emb := embeddedTree()
	if len(emb) == 0 {
		fmt.Println("SETUP-FAILED: embedded skill tree not found in the working tree")
		os.Exit(2)
	}
	scenarios := []c15Scenario{}
	for _, prior := range []string{"fresh", "older", "leftover-tmp", "same-content-other-modes", "same-content-symlinks"} {
		scenarios = append(scenarios,
			c15Scenario{Agent: "claude-code", Base: "proj/.claude/skills", Prior: prior},
			c15Scenario{Agent: "opencode", Args: []string{"--user"}, Base: "home/.config/opencode/skill", Prior: prior})
	}
	errnos := []syscall.Errno{syscall.EIO, syscall.ENOSPC, syscall.EACCES}
	if !rc.Thorough() {
		// quick: all crash points everywhere; the three errnos on two scenarios, EIO only on the rest
	}
	work := filepath.Join(env.Work, fmt.Sprintf("c15-%d", os.Getpid()))
	defer os.RemoveAll(work)
	type job struct {
		sc    c15Scenario
		kind  string // crash | fail
		k     int
		errno syscall.Errno
	}
	var jobs []job
	refs := map[string][]ptracer.Event{}
	refRoots := map[string]string{}
	for si, sc := range scenarios {
		root := filepath.Join(work, fmt.Sprintf("ref%d", si))
		prepareRoot(root, sc, emb)
		r := runInstaller(env, root, sc, ptracer.Plan{})
		if r.Err != nil || r.ExitCode != 0 {
			fmt.Printf("SETUP-FAILED: reference run of %s under ptrace: exit=%d err=%v stderr=%s\n", sc, r.ExitCode, r.Err, r.Stderr)
			os.Exit(2)
		}
		refs[sc.String()] = r.Events
		refRoots[sc.String()] = root
		// the fault-free run itself must complete the installation (content and final permissions of every file)
		fin := snapshot(root)
		for rel, sum := range emb {
			if a := fin[filepath.Join(sc.Base, "kessoku-di", rel)]; a.Sum != sum || a.Mode != 0o644 {
				rc.Add(Finding{Kind: "successful-run-incomplete", Site: "reference", Pre: "prior=" + sc.Prior, Detail: fmt.Sprintf("after a fault-free run that exited 0, %s is not the embedded content as a regular file with mode 0644 (mode %v)", rel, a.Mode), Witness: sc.String() + ": fault-free run"})
				break
			}
		}
		n := len(r.Events) // last one is exit_group
		for k := 1; k <= n; k++ {
			jobs = append(jobs, job{sc: sc, kind: "crash", k: k})
		}
		for k := 1; k < n; k++ {
			for ei, e := range errnos {
				if !rc.Thorough() && (si >= 2 && ei > 0 || si >= 6 && si%2 == 1) {
					continue
				}
				jobs = append(jobs, job{sc: sc, kind: "fail", k: k, errno: e})
			}
		}
	}
	type outcome struct {
		finding *Finding
		aligned bool
		sample  map[string]any
		nontriv string
	}
	outs := make([]outcome, len(jobs))
	pipe.Parallel(len(jobs), 16, func(i int) {
		j := jobs[i]
		ref := refs[j.sc.String()]
		root := filepath.Join(work, fmt.Sprintf("j%05d", i))
		defer os.RemoveAll(root)
		var o outcome
		for attempt := 0; attempt < 3 && !o.aligned; attempt++ {
			prepareRoot(root, j.sc, emb)
			before := snapshot(root)
			plan := ptracer.Plan{}
			if j.kind == "crash" {
				plan.KillBefore = j.k
			} else {
				plan.FailAt, plan.Errno = j.k, j.errno
			}
			r := runInstaller(env, root, j.sc, plan)
			if r.Err != nil || r.TimedOut {
				continue
			}
			// alignment: the run must have reached the intended call through the same calls as the reference
			if len(r.Events) < j.k {
				continue
			}
			ok := true
			for x := 0; x < j.k; x++ {
				if normEvent(r.Events[x], root) != normEvent(ref[x], refRoots[j.sc.String()]) {
					ok = false
				}
			}
			if !ok || r.Events[j.k-1].Injected == "" {
				continue
			}
			o.aligned = true
			target := r.Events[j.k-1]
			after := snapshot(root)
			skillRel := filepath.Join(j.sc.Base, "kessoku-di")
			desc := fmt.Sprintf("%s: %s #%d %s", j.sc, j.kind, j.k, normEvent(ref[j.k-1], refRoots[j.sc.String()]))
			if j.kind == "fail" {
				desc += " -> " + j.errno.Error()
			}
			rep := map[string]any{"scenario": j.sc.String(), "kind": j.kind, "k": j.k, "errno": j.errno.Error(), "events": r.Events, "exit": r.ExitCode, "stderr": r.Stderr}
			fail := func(kind, site, detail string) {
				if o.finding == nil {
					o.finding = &Finding{Kind: kind, Site: site, Pre: "prior=" + j.sc.Prior + ",step=" + target.Name, Detail: detail, Witness: desc, Replay: rep}
				}
			}
			// per-file atomicity: absent | prior (content+mode) | new (content, 0644)
			for rel, sum := range emb {
				p := filepath.Join(skillRel, rel)
				a, exists := after[p]
				b, had := before[p]
				switch {
				case !exists:
					if had {
						fail("destination-file-lost", j.kind, "destination file "+p+" existed before and is gone")
					}
				case had && a == b:
				case a.Sum == sum && a.Mode == 0o644:
				default:
					fail("torn-or-mixed-destination-file", j.kind, fmt.Sprintf("destination file %s is neither its previous content nor the complete new content with mode 0644 (mode %o)", p, a.Mode))
				}
			}
			// nothing else modified
			for p, b := range before {
				if _, isEmb := emb[strings.TrimPrefix(p, skillRel+"/")]; isEmb && strings.HasPrefix(p, skillRel+"/") {
					continue
				}
				if a, ok := after[p]; !ok || (!b.Dir && a != b) {
					fail("unrelated-file-touched", j.kind, "file "+p+" outside the installed set was removed or modified")
				}
			}
			newTmp := 0
			bt := tmpFiles(before)
			for p := range tmpFiles(after) {
				if !bt[p] {
					newTmp++
				}
				if _, clash := emb[strings.TrimPrefix(p, skillRel+"/")]; clash {
					fail("temp-name-clash", j.kind, "temporary name equals an installed file name: "+p)
				}
			}
			if j.kind == "crash" {
				// a later fault-free run completes the installation
				// (run under the supervisor too, without injection: a plain fork from a pooled OS thread could
				// be reaped by another supervisor that later runs on that thread)
				rr := runInstaller(env, root, j.sc, ptracer.Plan{})
				code, stderr := rr.ExitCode, rr.Stderr
				if rr.Err != nil {
					code, stderr = -1, rr.Err.Error()
				}
				fin := snapshot(root)
				if code != 0 {
					fail("recovery-run-failed", "crash", fmt.Sprintf("the run after the crash exited %d: %s", code, stderr))
				}
				for rel, sum := range emb {
					a := fin[filepath.Join(skillRel, rel)]
					if a.Sum != sum || a.Mode != 0o644 {
						fail("recovery-incomplete", "crash", "after a successful run following the crash, "+rel+" is not the embedded content with mode 0644")
					}
				}
				o.nontriv = fmt.Sprintf("crash|%s|%d", j.sc, j.k)
			} else {
				completed := true
				for rel, sum := range emb {
					a := after[filepath.Join(skillRel, rel)]
					if a.Sum != sum || a.Mode != 0o644 {
						completed = false
					}
				}
				if newTmp > 0 {
					fail("temp-file-left-behind", "fail", fmt.Sprintf("%d temporary file(s) left behind after a failed step", newTmp))
				}
				if target.Mutating {
					if r.ExitCode == 0 {
						fail("failure-not-reported", "fail", "a filesystem step failed but the installer exited 0")
					} else if !strings.Contains(r.Stderr, "Error") && strings.TrimSpace(r.Stderr) == "" {
						fail("failure-not-reported", "fail", "the installer exited non-zero without any message")
					}
					// the file whose step failed keeps its prior state
					if cur := currentFile(ref, j.k, refRoots[j.sc.String()]); cur != "" {
						p := strings.TrimPrefix(cur, "/")
						a, exists := after[p]
						b, had := before[p]
						if exists != had || (exists && a != b) {
							fail("previous-file-not-intact", "fail", "the destination file whose installation step failed ("+p+") does not have its previous state")
						}
					}
				} else if r.ExitCode == 0 && !completed {
					fail("silent-incomplete-install", "fail", "exit 0 but the installed tree is incomplete")
				} else if r.ExitCode != 0 && strings.TrimSpace(r.Stderr) == "" {
					fail("failure-not-reported", "fail", "the installer exited non-zero without any message")
				}
				o.nontriv = fmt.Sprintf("fail|%s|%d|%d", j.sc, j.k, j.errno)
			}
			o.sample = map[string]any{"case": desc, "exit": r.ExitCode, "stderr": strings.TrimSpace(r.Stderr), "killed": r.Killed}
		}
		outs[i] = o
	})
	aligned, unaligned := 0, 0
	distinct := map[string]bool{}
	var samples []any
	for i, o := range outs {
		if !o.aligned {
			unaligned++
			continue
		}
		aligned++
		distinct[o.nontriv] = true
		if o.finding != nil {
			rc.Add(*o.finding)
		}
		if len(samples) < 5 && i%97 == int(rc.Seed%97) {
			samples = append(samples, o.sample)
		}
	}
	if len(samples) == 0 && len(outs) > 0 {
		samples = append(samples, outs[0].sample)
	}
	var refDesc []string
	for _, sc := range scenarios {
		refDesc = append(refDesc, fmt.Sprintf("%s: %d calls", sc, len(refs[sc.String()])))
	}
	rc.Coverage = map[string]any{
		"evaluations":         len(jobs),
		"distinct_nontrivial": len(distinct),
		"rule":                "the UNMODIFIED CLI under a ptrace supervisor that numbers, in one total order over all threads, every system call touching the private destination root (newfstatat, mkdirat, openat, write, fsync, close, fchmodat, renameat, unlinkat, ... and exit_group). For every scenario (agent x prior state fresh / older install with other bytes and modes / leftover .tmp-* files / identical content with other permissions / identical content behind symbolic links) and EVERY index k: (a) SIGKILL before call k (k = N+1 is death at exit), then the per-file atomicity invariant, then a fault-free run that must complete the installation; (b) call k fails with EIO / ENOSPC / EACCES, then: error reported for mutating steps, no new temp file, failed file keeps its previous state, per-file atomicity. A run counts only if its own trace reaches call k through the same calls as the reference (otherwise retried, then reported unaligned). distinct = distinct (scenario, k, fault) triples evaluated",
		"samples":             samples,
		"exhaustive":          unaligned == 0,
		"aligned_runs":        aligned,
		"unaligned_runs_no_verdict": unaligned,
		"reference_traces":    refDesc,
		"tree_hash":           env.Hash,
	}
	rc.Assume = []string{"process death at system-call boundaries (not power loss); rename(2) is trusted to be atomic", "a single injected failure per run", "read-only probes (stat) may fail benignly: then either a reported error or a complete installation is accepted"}
	rc.Finish()
}

// currentFile returns the destination path (relative to root, with leading slash) of the file
// being installed at reference step k: the target of the next rename at or after k.
func currentFile(ref []ptracer.Event, k int, root string) string {
	for i := k - 1; i < len(ref); i++ {
		if strings.HasPrefix(ref[i].Name, "rename") {
			return strings.TrimPrefix(ref[i].Path2, root)
		}
	}
	return ""
}

func installerCmd(env *pipe.Env, sc c15Scenario) []string {
	return append([]string{env.Kessoku, "llm-setup", sc.Agent}, sc.Args...)
}

func installerEnv(root string) []string {
	return []string{"HOME=" + filepath.Join(root, "home"), "PATH=/usr/bin:/bin", "GOMAXPROCS=1"}
}

func runInstaller(env *pipe.Env, root string, sc c15Scenario, plan ptracer.Plan) *ptracer.Result {
	return ptracer.Run(installerCmd(env, sc), filepath.Join(root, "proj"), installerEnv(root), root, plan)
}

var _ = sort.Strings
