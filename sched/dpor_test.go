package sched_test

import (
	"fmt"
	"sort"
	"strings"
	"testing"

	"verif/sched"
	"verif/shim/vctx"
	"verif/shim/vsync"
)

// exploreDPOR runs a litmus program under the partial-order-reducing explorer.
func exploreDPOR(t *testing.T, setup func(w *sched.World, out *string) func()) result {
	res := result{outcomes: map[string]int{}, viol: map[string]int{}}
	var out *string
	e := &sched.DPOR{MaxExecs: 2000000}
	e.Setup = func(w *sched.World) func() {
		out = new(string)
		return setup(w, out)
	}
	e.AtTerminal = func(w *sched.World) {
		if live := w.Live(); len(live) > 0 {
			var d []string
			for _, th := range live {
				d = append(d, th.Name+":"+w.DescribePending(th))
			}
			w.Violate("deadlock", strings.Join(d, " "))
		}
		res.outcomes[*out]++
	}
	e.AfterRun = func(w *sched.World, choices []int, complete bool) {
		for _, v := range w.Viol {
			res.viol[v.Kind]++
		}
	}
	e.Explore()
	if e.Capped {
		t.Fatalf("capped")
	}
	res.execs, res.states = e.Execs, e.Steps
	return res
}

func TestDPORIndependentThreadsOneTrace(t *testing.T) {
	for k := 1; k <= 5; k++ {
		for n := 2; n <= 4; n++ {
			r := exploreDPOR(t, func(w *sched.World, out *string) func() {
				return func() {
					for i := 0; i < n; i++ {
						sched.Go(func() {
							for j := 0; j < k; j++ {
								sched.Yield("step")
							}
						})
					}
				}
			})
			if r.execs != 1 {
				t.Errorf("n=%d k=%d: %d executions for a program with a single Mazurkiewicz trace", n, k, r.execs)
			}
		}
	}
}

func TestDPORLostUpdate(t *testing.T) {
	r := exploreDPOR(t, func(w *sched.World, out *string) func() {
		x := 0
		return func() {
			sched.Init("x")
			var wg vsync.WaitGroup
			for i := 0; i < 2; i++ {
				wg.Add(1)
				sched.Go(func() {
					defer wg.Done()
					sched.Access("load", []string{"x"}, nil)
					tmp := x
					sched.Access("store", nil, []string{"x"})
					x = tmp + 1
					sched.Wrote("x")
				})
			}
			wg.Wait()
			*out = fmt.Sprint(x)
		}
	})
	if r.viol["race"] == 0 || r.outcomes["1"] == 0 || r.outcomes["2"] == 0 || r.viol["deadlock"] != 0 {
		t.Errorf("lost update under DPOR: outcomes %v viol %v", r.outcomes, r.viol)
	}
}

func TestDPOROrderedByClose(t *testing.T) {
	r := exploreDPOR(t, func(w *sched.World, out *string) func() {
		x := 0
		return func() {
			ch := sched.MakeChan[struct{}](0, "ch")
			sched.Go(func() {
				sched.Access("store", nil, []string{"x"})
				x = 7
				sched.Wrote("x")
				sched.Close(ch)
			})
			sched.Recv(ch)
			sched.Access("load", []string{"x"}, nil)
			*out = fmt.Sprint(x)
		}
	})
	if len(r.viol) != 0 || len(r.outcomes) != 1 || r.outcomes["7"] == 0 {
		t.Errorf("outcomes %v viol %v", r.outcomes, r.viol)
	}
	if r.execs != 1 {
		t.Errorf("%d executions, want 1 (single trace)", r.execs)
	}
}

func TestDPORCloseBeforeWrite(t *testing.T) {
	r := exploreDPOR(t, func(w *sched.World, out *string) func() {
		x := 0
		return func() {
			ch := sched.MakeChan[struct{}](0, "ch")
			sched.Go(func() {
				sched.Close(ch)
				sched.Access("store", nil, []string{"x"})
				x = 7
				sched.Wrote("x")
			})
			sched.Recv(ch)
			sched.Access("load", []string{"x"}, nil)
			*out = fmt.Sprint(x)
			sched.MainReturn(*out)
		}
	})
	if r.viol["race"] == 0 || r.viol["read-before-write"] == 0 || r.outcomes["0"] == 0 || r.outcomes["7"] == 0 {
		t.Errorf("outcomes %v viol %v", r.outcomes, r.viol)
	}
}

func TestDPORLockOrderDeadlock(t *testing.T) {
	r := exploreDPOR(t, func(w *sched.World, out *string) func() {
		return func() {
			var a, b vsync.Mutex
			var wg vsync.WaitGroup
			wg.Add(2)
			sched.Go(func() { defer wg.Done(); a.Lock(); b.Lock(); b.Unlock(); a.Unlock() })
			sched.Go(func() { defer wg.Done(); b.Lock(); a.Lock(); a.Unlock(); b.Unlock() })
			wg.Wait()
			*out = "done"
		}
	})
	if r.viol["deadlock"] == 0 || r.outcomes["done"] == 0 {
		t.Errorf("outcomes %v viol %v", r.outcomes, r.viol)
	}
}

func TestDPORDoubleCloseAndSelect(t *testing.T) {
	r := exploreDPOR(t, func(w *sched.World, out *string) func() {
		return func() {
			ch := sched.MakeChan[struct{}](0, "ch")
			sched.Go(func() { sched.Close(ch) })
			sched.Go(func() { sched.Close(ch) })
		}
	})
	if r.viol["double-close"] == 0 {
		t.Errorf("double close not found: %v", r.viol)
	}
	r = exploreDPOR(t, func(w *sched.World, out *string) func() {
		return func() {
			a := sched.MakeChan[struct{}](0, "a")
			b := sched.MakeChan[struct{}](0, "b")
			sched.Go(func() { sched.Close(a) })
			sched.Go(func() { sched.Close(b) })
			switch sched.Select(false, a, b) {
			case 0:
				*out = "a"
			case 1:
				*out = "b"
			}
		}
	})
	if r.outcomes["a"] == 0 || r.outcomes["b"] == 0 || len(r.viol) != 0 {
		t.Errorf("select: outcomes %v viol %v", r.outcomes, r.viol)
	}
}

func TestDPORCancelAllPositions(t *testing.T) {
	r := exploreDPOR(t, func(w *sched.World, out *string) func() {
		return func() {
			ctx := vctx.New()
			sched.GoEnv("canceller", func() {
				if sched.EnvCancelPoint() {
					ctx.Cancel(nil, "caller")
				}
			})
			seen := []string{}
			for i := 0; i < 3; i++ {
				sched.Yield("step")
				if ctx.Err() != nil {
					seen = append(seen, fmt.Sprint(i))
					break
				}
			}
			*out = strings.Join(seen, ",")
			sched.MainReturn(*out)
		}
	})
	var ks []string
	for k := range r.outcomes {
		ks = append(ks, k)
	}
	sort.Strings(ks)
	if strings.Join(ks, "|") != "|0|1|2" || len(r.viol) != 0 {
		t.Errorf("cancel positions observed: %q viol %v", ks, r.viol)
	}
}

// Producer/consumer pipeline through WaitGroup and done-channels, like a generated injector: many interleavings,
// one trace.
func TestDPORInjectorShapeSingleTrace(t *testing.T) {
	r := exploreDPOR(t, func(w *sched.World, out *string) func() {
		return func() {
			var wg vsync.WaitGroup
			chs := make([]chan struct{}, 6)
			for i := range chs {
				chs[i] = sched.MakeChan[struct{}](0, fmt.Sprintf("c%d", i))
			}
			for i := range chs {
				wg.Add(1)
				sched.Go(func() {
					defer wg.Done()
					sched.Yield("enter")
					sched.Yield("exit")
					sched.Close(chs[i])
				})
			}
			for i := range chs {
				sched.Recv(chs[i])
			}
			wg.Wait()
			*out = "ok"
		}
	})
	if r.execs != 1 || r.outcomes["ok"] != 1 || len(r.viol) != 0 {
		t.Errorf("execs %d outcomes %v viol %v", r.execs, r.outcomes, r.viol)
	}
}
