// Package conform replays provider-level traces of the exploration on the UNINSTRUMENTED generated
// injector: real errgroup, real channels, real context, built with -race. Providers block on gates;
// a controller forces the provider-level order of a trace (up to the first cancellation or provider
// failure, after which the real run is only observed), and the observed (trace, outcome) pair must be
// one the explorer produced. This validates the rewrite and the shims; it samples channel-level
// interleavings and is never the deciding step of a check.
package conform

import (
	"bufio"
	"context"
	"encoding/json"
	"errors"
	"flag"
	"fmt"
	"os"
	"sort"
	"strings"
	"sync"
	"time"

	"verif/rt"
)

// Job is one trace to force.
type Job struct {
	Pkg      string   `json:"pkg"`
	Scenario string   `json:"scenario"`
	Fail     []string `json:"fail,omitempty"`
	Proj     []string `json:"proj"`
}

// Obs is what the real run did.
type Obs struct {
	Pkg          string   `json:"pkg"`
	Scenario     string   `json:"scenario"`
	Forced       []string `json:"forced"`
	Proj         []string `json:"proj"`
	Term         string   `json:"term"`
	Err          string   `json:"err"`
	Returned     bool     `json:"returned"`
	Inconclusive string   `json:"inconclusive,omitempty"`
}

type gate struct {
	mu      sync.Mutex
	cond    *sync.Cond
	waiting map[string][]chan struct{} // several arrivals of one event (a provider invoked twice) queue up
	order   []string // arrival order of currently waiting events
	fail    map[string]error
	drain   bool
	obs     []string
}

func (g *gate) arrive(ev string) {
	ch := make(chan struct{})
	g.mu.Lock()
	if g.drain {
		g.obs = append(g.obs, ev)
		g.mu.Unlock()
		return
	}
	g.waiting[ev] = append(g.waiting[ev], ch)
	g.order = append(g.order, ev)
	g.cond.Broadcast()
	g.mu.Unlock()
	<-ch
}

func (g *gate) Call(pid string, args []string) (string, error) {
	g.arrive("enter:" + pid)
	g.arrive("exit:" + pid)
	if err := g.fail[pid]; err != nil {
		return "", err
	}
	return rt.Term(pid, args), nil
}

// release lets a waiting event through; returns false if it did not arrive within the deadline.
func (g *gate) release(ev string, d time.Duration) bool {
	deadline := time.Now().Add(d)
	g.mu.Lock()
	defer g.mu.Unlock()
	for {
		if chs := g.waiting[ev]; len(chs) > 0 {
			ch := chs[0]
			g.waiting[ev] = chs[1:]
			for i, o := range g.order {
				if o == ev {
					g.order = append(g.order[:i], g.order[i+1:]...)
					break
				}
			}
			g.obs = append(g.obs, ev)
			close(ch)
			return true
		}
		if time.Now().After(deadline) {
			return false
		}
		// wait with a timeout
		t := time.AfterFunc(50*time.Millisecond, func() { g.cond.Broadcast() })
		g.cond.Wait()
		t.Stop()
	}
}

// startDrain releases everything that waits now (in arrival order) and lets later arrivals pass.
func (g *gate) startDrain() {
	g.mu.Lock()
	defer g.mu.Unlock()
	g.drain = true
	for _, ev := range g.order {
		g.obs = append(g.obs, ev)
		if chs := g.waiting[ev]; len(chs) > 0 {
			close(chs[0])
			g.waiting[ev] = chs[1:]
		}
	}
	g.order = nil
}

// Force runs one job on the real injector.
func Force(c *rt.Case, j Job) Obs {
	o := Obs{Pkg: j.Pkg, Scenario: j.Scenario}
	g := &gate{waiting: map[string][]chan struct{}{}, fail: map[string]error{}}
	g.cond = sync.NewCond(&g.mu)
	for _, f := range j.Fail {
		g.fail[f] = errors.New("fail:" + f)
	}
	rt.SetBackend(g)
	defer rt.SetBackend(nil)
	ctx, cancel := context.WithCancel(context.Background())
	defer cancel()
	type ret struct {
		term string
		err  error
	}
	done := make(chan ret, 1)
	go func() {
		t, err := c.Call(ctx)
		done <- ret{t, err}
	}()
	for _, ev := range j.Proj {
		if ev == "cancel" {
			cancel()
			g.mu.Lock()
			g.obs = append(g.obs, "cancel")
			g.mu.Unlock()
			o.Forced = append(o.Forced, ev)
			break // after a cancellation the real run is only observed
		}
		if !g.release(ev, 5*time.Second) {
			o.Inconclusive = "event " + ev + " did not arrive within 5s"
			break
		}
		o.Forced = append(o.Forced, ev)
		if strings.HasPrefix(ev, "exit:") && g.fail[ev[5:]] != nil {
			break // after a provider failure the real run is only observed
		}
	}
	g.startDrain()
	select {
	case r := <-done:
		o.Returned = true
		o.Term = r.term
		if r.err != nil {
			o.Err = r.err.Error()
		}
	case <-time.After(3 * time.Second):
		o.Returned = false
	}
	// give goroutines that are still running providers a moment to log their events
	time.Sleep(2 * time.Millisecond)
	g.mu.Lock()
	o.Proj = append([]string(nil), g.obs...)
	g.mu.Unlock()
	return o
}

// Main is the entry point of the free-running runner binary.
func Main() {
	jobsFile := flag.String("jobs", "", "jobs (JSON lines)")
	out := flag.String("out", "", "observations (JSON lines)")
	flag.Parse()
	byPkg := map[string]*rt.Case{}
	for _, c := range rt.Cases {
		byPkg[c.Pkg] = c
	}
	f, err := os.Open(*jobsFile)
	if err != nil {
		fmt.Fprintln(os.Stderr, err)
		os.Exit(2)
	}
	defer f.Close()
	of, err := os.Create(*out)
	if err != nil {
		fmt.Fprintln(os.Stderr, err)
		os.Exit(2)
	}
	defer of.Close()
	w := bufio.NewWriter(of)
	defer w.Flush()
	enc := json.NewEncoder(w)
	sc := bufio.NewScanner(f)
	sc.Buffer(make([]byte, 1<<20), 1<<24)
	for sc.Scan() {
		var j Job
		if json.Unmarshal(sc.Bytes(), &j) != nil {
			continue
		}
		c := byPkg[j.Pkg]
		if c == nil || c.Unsupported != "" {
			continue
		}
		fmt.Fprintf(os.Stderr, "CONFORM-CASE %s %s\n", j.Pkg, j.Scenario)
		o := Force(c, j)
		_ = enc.Encode(o)
	}
	fmt.Fprintln(os.Stderr, "CONFORM-END")
}

// Key canonicalises a (projection, outcome) pair. Concurrent providers' events are unordered in the
// real run relative to each other beyond what gates force, so pairs are compared on the per-provider
// event multiset, the position of the cancellation relative to each provider event, and the outcome.
func Key(proj []string, term, err string, returned bool) string {
	var before, after []string
	seenCancel := false
	for _, e := range proj {
		if e == "cancel" {
			seenCancel = true
			continue
		}
		if seenCancel {
			after = append(after, e)
		} else {
			before = append(before, e)
		}
	}
	sort.Strings(after)
	c := ""
	if seenCancel {
		c = "|cancel|"
	}
	ret := "returned"
	if !returned {
		ret = "NO-RETURN"
		term, err = "", ""
	}
	return strings.Join(before, ",") + c + strings.Join(after, ",") + " => " + ret + " " + term + " / " + err
}
