package sched

import (
	"fmt"
	"strings"
)

// Explorer performs a stateless depth-first search over all schedules of a closed program,
// replaying from the initial state and pruning at already expanded global state keys. When
// MaxExecs is exceeded it records Capped and stops (the caller then reports exhaustive:false).
type Explorer struct {
	MaxExecs int
	// Setup builds a fresh world for one execution and returns the body of thread 0.
	Setup func(w *World) func()
	// AtState is called once for every newly discovered state (before it is expanded).
	AtState func(w *World, alts []Alt)
	// AtEnd is called at the end of every execution that was not cut.
	AtEnd func(w *World)
	// AfterRun is called after every execution (cut or not) with the world, for collecting violations.
	AfterRun func(w *World, choices []int, cut bool)
	// NoPrune disables state-key pruning (used by the litmus self-tests).
	NoPrune bool
	// KeepLog keeps the event log of every execution (trace collection for the conformance pass).
	KeepLog bool

	seen        map[Key]struct{}
	stack       [][]int
	curRun      *runChooser
	States      int
	Transitions int
	Execs       int
	Cuts        int
	MaxDepth    int
	Capped      bool
}

type runChooser struct {
	e       *Explorer
	prefix  []int
	choices []int
	cut     bool
}

func (r *runChooser) Choose(w *World, alts []Alt) int {
	e := r.e
	pos := len(r.choices)
	if pos < len(r.prefix) {
		c := r.prefix[pos]
		if c >= len(alts) {
			panic(fmt.Sprintf("sched: replay divergence at step %d: choice %d of %d alternatives (prefix %v)", pos, c, len(alts), r.prefix))
		}
		r.choices = append(r.choices, c)
		return c
	}
	if !e.NoPrune {
		k := w.Key()
		if _, ok := e.seen[k]; ok {
			r.cut = true
			e.Cuts++
			return -1
		}
		e.seen[k] = struct{}{}
	}
	e.States++
	e.Transitions += len(alts)
	if e.AtState != nil {
		e.AtState(w, alts)
	}
	if len(alts) == 0 {
		return -1
	}
	for i := len(alts) - 1; i >= 1; i-- {
		p := make([]int, pos+1)
		copy(p, r.choices)
		p[pos] = i
		e.stack = append(e.stack, p)
	}
	r.choices = append(r.choices, 0)
	return 0
}

// RunOne executes one schedule given as a complete or partial choice list (remaining choices are 0).
func (e *Explorer) RunOne(prefix []int, keepLog bool) (*World, []int, bool) {
	w := NewWorld()
	w.KeepLog = keepLog
	body := e.Setup(w)
	r := &runChooser{e: e, prefix: prefix}
	e.curRun = r
	cut := w.Run(body, r)
	return w, r.choices, cut || r.cut
}

func (e *Explorer) Explore() {
	e.seen = map[Key]struct{}{}
	e.stack = [][]int{{}}
	for len(e.stack) > 0 {
		if e.MaxExecs > 0 && e.Execs >= e.MaxExecs {
			e.Capped = true
			return
		}
		prefix := e.stack[len(e.stack)-1]
		e.stack = e.stack[:len(e.stack)-1]
		w, choices, cut := e.RunOne(prefix, e.KeepLog)
		e.Execs++
		if len(choices) > e.MaxDepth {
			e.MaxDepth = len(choices)
		}
		if !cut && e.AtEnd != nil {
			e.AtEnd(w)
		}
		if e.AfterRun != nil {
			e.AfterRun(w, choices, cut)
		}
	}
}

// Replay re-runs a schedule without pruning, keeping the event log.
func Replay(setup func(w *World) func(), choices []int) (*World, string) {
	e := &Explorer{Setup: setup, NoPrune: true}
	e.seen = map[Key]struct{}{}
	w, _, _ := e.RunOne(choices, true)
	var sb strings.Builder
	for _, ev := range w.Log {
		sb.WriteString(ev.String())
		sb.WriteByte('\n')
	}
	return w, sb.String()
}

// CurrentChoices returns the choices made so far in the execution in progress.
func (e *Explorer) CurrentChoices() []int {
	if e.curRun == nil {
		return nil
	}
	return e.curRun.choices
}
