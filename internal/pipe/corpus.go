package pipe

import (
	"bytes"
	"encoding/json"
	"fmt"
	"os"
	"os/exec"
	"path/filepath"
	"regexp"
	"sort"
	"strconv"
	"strings"

	"verif/explore"
	"verif/internal/decl"
	"verif/internal/rewrite"
)

// Item is one declaration of the corpus with everything that happened to it.
type Item struct {
	Pkg      string             `json:"pkg"`
	Spec     string             `json:"spec"`
	GenExit  int                `json:"gen_exit"`
	GenErr   string             `json:"gen_err,omitempty"`
	HasBand  bool               `json:"has_band"`
	InstrErr string             `json:"instr_err,omitempty"`
	BuildErr string             `json:"build_err,omitempty"`
	Funcs    []rewrite.FuncInfo `json:"funcs,omitempty"`
	Runnable bool               `json:"runnable"`
	Decl     *decl.Decl         `json:"-"`
	Ref      *decl.Ref          `json:"-"`
}

type Corpus struct {
	Tier   string
	Dir    string
	Items  []*Item
	ByPkg  map[string]*Item
	Runner string
	Cases  string
}

const runnerShardSize = 7000

func (c *Corpus) runnerPath(k int) string {
	if k == 0 {
		return c.Runner
	}
	return fmt.Sprintf("%s-%d", c.Runner, k)
}

// Runners lists the runner binaries that exist.
func (c *Corpus) Runners() []string {
	var out []string
	for k := 0; ; k++ {
		if _, err := os.Stat(c.runnerPath(k)); err != nil {
			break
		}
		out = append(out, c.runnerPath(k))
	}
	return out
}

func (c *Corpus) BandPath(it *Item) string { return filepath.Join(c.Dir, "o", it.Pkg, "p_band.go") }
func (c *Corpus) SrcPath(it *Item) string  { return filepath.Join(c.Dir, "o", it.Pkg, "p.go") }

// RunKessoku runs the built CLI the way go:generate would: in the package directory, on the file.
func (e *Env) RunKessoku(dir string, args ...string) (int, string) {
	cmd := exec.Command(e.Kessoku, args...)
	cmd.Dir = dir
	// GOMAXPROCS=2 for the CLI and the `go list` children it starts: many small processes in parallel
	// run ~2x faster this way (measured); it does not change what they compute.
	// (the CLI's package loader compiles export data for every package it is pointed at: tens of thousands of
	// throw-away packages per corpus; they go to a cache private to this process, emptied in between and removed at exit, not to the user's)
	cmd.Env = GoEnv("GOCACHE="+CLICache(), "GOMAXPROCS=2")
	var stderr bytes.Buffer
	cmd.Stderr = &stderr
	cmd.Stdout = &stderr
	err := cmd.Run()
	code := 0
	if err != nil {
		if ee, ok := err.(*exec.ExitError); ok {
			code = ee.ExitCode()
		} else {
			code = -1
			stderr.WriteString(err.Error())
		}
	}
	return code, stderr.String()
}

// WriteModule writes go.mod/go.sum for a scratch module that uses /repo's kessoku and verif's runtime.
func (e *Env) WriteModule(dir, name string) {
	must(os.MkdirAll(dir, 0o755))
	mod := fmt.Sprintf(`module %s

go 1.25.5

require (
	github.com/mazrean/kessoku v0.0.0
	golang.org/x/sync %s
	verif v0.0.0
)

replace github.com/mazrean/kessoku => %s

replace verif => %s
`, name, e.SyncVer, RepoDir(), VerifRoot)
	must(os.WriteFile(filepath.Join(dir, "go.mod"), []byte(mod), 0o644))
	sum, _ := os.ReadFile(filepath.Join(RepoDir(), "go.sum"))
	must(os.WriteFile(filepath.Join(dir, "go.sum"), sum, 0o644))
}

// WriteErrgroupShim generates the scheduler-routed errgroup copy into dir/shim/errgroup.
func (e *Env) WriteErrgroupShim(dir string) error {
	src, err := os.ReadFile(filepath.Join("/root/go/pkg/mod/golang.org/x/sync@"+e.SyncVer, "errgroup", "errgroup.go"))
	if err != nil {
		return err
	}
	out, err := rewrite.ErrgroupShim(src)
	if err != nil {
		return err
	}
	d := filepath.Join(dir, "shim", "errgroup")
	must(os.MkdirAll(d, 0o755))
	return os.WriteFile(filepath.Join(d, "errgroup.go"), out, 0o644)
}

var reUpperIdent = regexp.MustCompile(`^[A-Z][A-Za-z0-9_]*$`)

// argExpr builds a symbolic argument for a parameter of the generated injector.
func argExpr(t string, ctxAlias string) (string, bool) {
	switch {
	case ctxAlias != "" && t == ctxAlias+".Context":
		return "c.(hctx__.Context)", true
	case strings.HasPrefix(t, "*") && reUpperIdent.MatchString(t[1:]):
		return fmt.Sprintf("&%s{R: %q}", t[1:], "arg:"+t), true
	case reUpperIdent.MatchString(t) && regexp.MustCompile(`^I[0-9]+$`).MatchString(t):
		return fmt.Sprintf("&T%s{R: %q}", t[1:], "arg:"+t), true
	case reUpperIdent.MatchString(t):
		return fmt.Sprintf("%s{R: %q}", t, "arg:"+t), true
	}
	return "", false
}

func resultTerm(t, v string) (string, bool) {
	switch {
	case strings.HasPrefix(t, "*") && reUpperIdent.MatchString(t[1:]):
		return v + ".Term()", true
	case regexp.MustCompile(`^I[0-9]+$`).MatchString(t):
		return "rt.TermOf(" + v + ")", true
	case regexp.MustCompile(`^V[A-Z]?[0-9]+$`).MatchString(t):
		return v + ".Term()", true
	case reUpperIdent.MatchString(t):
		return "(&" + v + ").Term()", true
	}
	return "", false
}

// Harness generates the registration file for the injectors of one generated file.
func Harness(pkgName, pkgID string, res *rewrite.Result) string {
	var sb strings.Builder
	ctxAlias := ""
	if n, ok := res.Imports["context"]; ok {
		ctxAlias = n
		if n == "" {
			ctxAlias = "context"
		}
	}
	fmt.Fprintf(&sb, "// Harness generated by verif/internal/pipe. DO NOT EDIT.\n\npackage %s\n\nimport (\n\thctx__ \"context\"\n\n\t\"verif/rt\"\n)\n\nvar _ hctx__.Context\n\nfunc init() {\n", pkgName)
	for _, f := range res.Funcs {
		if f.Name == "Pre" {
			continue // the prelude injector only shifts the name allocator
		}
		hasCtx, hasErr := false, false
		var args []string
		unsupported := ""
		for _, p := range f.Params {
			a, ok := argExpr(p.Type, ctxAlias)
			if !ok {
				unsupported = "cannot construct argument of type " + p.Type
				break
			}
			if strings.HasPrefix(a, "c.(") {
				hasCtx = true
			}
			args = append(args, a)
		}
		nres := len(f.Results)
		if nres == 2 && f.Results[1].Type == "error" {
			hasErr = true
		} else if nres != 1 {
			unsupported = fmt.Sprintf("injector has %d results", nres)
		}
		var term string
		if unsupported == "" {
			var ok bool
			term, ok = resultTerm(f.Results[0].Type, "v")
			if !ok {
				unsupported = "cannot read term of result type " + f.Results[0].Type
			}
		}
		fmt.Fprintf(&sb, "\trt.Register(&rt.Case{Pkg: %q, Injector: %q, HasCtx: %v, HasErr: %v, Unsupported: %q", pkgID, f.Name, hasCtx, hasErr, unsupported)
		if unsupported == "" {
			call := f.Name + "(" + strings.Join(args, ", ") + ")"
			if hasErr {
				fmt.Fprintf(&sb, ", Call: func(c any) (string, error) {\n\t\tv, err := %s\n\t\treturn %s, err\n\t}", call, term)
			} else {
				fmt.Fprintf(&sb, ", Call: func(c any) (string, error) {\n\t\tv := %s\n\t\treturn %s, nil\n\t}", call, term)
			}
		}
		sb.WriteString("})\n")
	}
	sb.WriteString("}\n")
	return sb.String()
}

// CaseInfoOf converts the reference's view into the runner's input.
func CaseInfoOf(pkg string, d *decl.Decl, ref *decl.Ref, goroutines int) *explore.CaseInfo {
	ci := &explore.CaseInfo{Pkg: pkg, Spec: d.Spec(), Term: ref.Term, HasErr: ref.HasErr, HasCtx: ref.HasCtx, NeededAsync: ref.NeededAsync, Goroutines: goroutines, POR: d.Large}
	needed := map[int]bool{}
	for _, id := range ref.Needed {
		needed[id] = true
	}
	inputFree := map[int]bool{}
	for _, id := range ref.InputFree {
		inputFree[id] = true
	}
	name := func(id int) string { return fmt.Sprintf("P%d", id) }
	for _, p := range d.Provs {
		if p.Kind != decl.Func {
			continue
		}
		pi := explore.ProvInfo{ID: p.Name(), Async: p.Async, Fallible: p.Fallible, Needed: needed[p.ID], InputFree: inputFree[p.ID], ArgTerms: ref.ArgTerms[p.ID]}
		for _, k := range ref.Deps[p.ID] {
			pi.Deps = append(pi.Deps, name(k))
		}
		var td []int
		for k := range ref.TransDeps[p.ID] {
			td = append(td, k)
		}
		sort.Ints(td)
		for _, k := range td {
			pi.TransDeps = append(pi.TransDeps, name(k))
		}
		ci.Provs = append(ci.Provs, pi)
	}
	return ci
}

var reBuildHdr = regexp.MustCompile(`(?m)^# (\S+)`)

// buildErrors splits `go build` output into per-package error text.
func buildErrors(out string, prefix string) map[string]string {
	res := map[string]string{}
	locs := reBuildHdr.FindAllStringSubmatchIndex(out, -1)
	for i, l := range locs {
		pkg := out[l[2]:l[3]]
		end := len(out)
		if i+1 < len(locs) {
			end = locs[i+1][0]
		}
		body := strings.TrimSpace(out[l[1]:end])
		pkg = strings.TrimPrefix(pkg, prefix)
		res[pkg] += body
	}
	return res
}

// BuildCorpus generates, instruments and compiles the corpus of a tier (cached per tree hash).
func (e *Env) BuildCorpus(tier string) *Corpus {
	decls := decl.Universe(tier)
	c := &Corpus{Tier: tier, Dir: filepath.Join(e.Work, "corpus-"+tier), ByPkg: map[string]*Item{}}
	c.Runner = filepath.Join(c.Dir, "runner")
	c.Cases = filepath.Join(c.Dir, "cases.json")
	for i, d := range decls {
		it := &Item{Pkg: fmt.Sprintf("p%05d", i), Spec: d.Spec(), Decl: d, Ref: decl.Reference(d)}
		c.Items = append(c.Items, it)
		c.ByPkg[it.Pkg] = it
	}
	unlock := e.Lock("corpus-" + tier)
	defer unlock()
	index := filepath.Join(c.Dir, "index.json")
	if b, err := os.ReadFile(index); err == nil {
		var saved []*Item
		if json.Unmarshal(b, &saved) == nil && len(saved) == len(c.Items) {
			for i, s := range saved {
				s.Decl, s.Ref = c.Items[i].Decl, c.Items[i].Ref
				c.Items[i] = s
				c.ByPkg[s.Pkg] = s
			}
			return c
		}
	}
	_ = os.RemoveAll(c.Dir)
	MaintainBulkCache()
	e.WriteModule(c.Dir, "corpus")
	if err := e.WriteErrgroupShim(c.Dir); err != nil {
		fmt.Printf("SETUP-FAILED: errgroup shim: %v\n", err)
		os.Exit(2)
	}
	// 1. emit and generate, in chunks: the CLI's package loader leaves export data for every package it is pointed
	// at in its build cache (about 1 MB per declaration); that cache is private to this process and emptied after
	// every chunk, so its size stays bounded whatever the size of the corpus
	const chunk = 3000
	for lo := 0; lo < len(c.Items); lo += chunk {
		hi := lo + chunk
		if hi > len(c.Items) {
			hi = len(c.Items)
		}
		Parallel(hi-lo, 32, func(j int) {
			it := c.Items[lo+j]
			dir := filepath.Join(c.Dir, "o", it.Pkg)
			must(os.MkdirAll(dir, 0o755))
			must(os.WriteFile(filepath.Join(dir, "p.go"), []byte(it.Decl.Emit(it.Pkg)), 0o644))
			it.GenExit, it.GenErr = e.RunKessoku(dir, "-l", "error", "p.go")
			if _, err := os.Stat(filepath.Join(dir, "p_band.go")); err == nil {
				it.HasBand = true
			}
		})
		ResetCLICache()
	}
	// 2. instrument
	Parallel(len(c.Items), 16, func(i int) {
		it := c.Items[i]
		if it.GenExit != 0 || !it.HasBand {
			return
		}
		src, err := os.ReadFile(c.BandPath(it))
		if err != nil {
			it.InstrErr = err.Error()
			return
		}
		res, err := rewrite.File("p_band.go", src, "corpus/shim/errgroup")
		if err != nil {
			it.InstrErr = err.Error()
			return
		}
		it.Funcs = res.Funcs
		dir := filepath.Join(c.Dir, "i", it.Pkg)
		must(os.MkdirAll(dir, 0o755))
		user, _ := os.ReadFile(c.SrcPath(it))
		must(os.WriteFile(filepath.Join(dir, "p.go"), user, 0o644))
		must(os.WriteFile(filepath.Join(dir, "p_band.go"), res.Src, 0o644))
		must(os.WriteFile(filepath.Join(dir, "zz_harness.go"), []byte(Harness(it.Pkg, it.Pkg, res)), 0o644))
	})
	// 3. compile the instrumented copies; attribute errors
	out, _ := RunGo(c.Dir, "build", "-buildvcs=false", "-gcflags=-e", "./i/...")
	errs := buildErrors(string(out), "corpus/i/")
	for _, it := range c.Items {
		if it.GenExit == 0 && it.HasBand && it.InstrErr == "" {
			if msg, bad := errs[it.Pkg]; bad {
				it.BuildErr = msg
			} else {
				it.Runnable = true
			}
		}
	}
	if bytes.Contains(out, []byte("no space left on device")) || bytes.Contains(out, []byte("signal: killed")) || (len(errs) == 0 && len(out) > 0 && bytes.Contains(out, []byte("go: "))) {
		fmt.Printf("SETUP-FAILED: building instrumented corpus:\n%s\n", out)
		os.Exit(2)
	}
	// 4. runner binaries: at most runnerShardSize packages are linked into one binary
	infos := map[string]*explore.CaseInfo{}
	var groups [][]*Item
	for _, it := range c.Items {
		if !it.Runnable {
			continue
		}
		g := 0
		for _, f := range it.Funcs {
			g += f.Goroutines
		}
		infos[it.Pkg] = CaseInfoOf(it.Pkg, it.Decl, it.Ref, g)
		if len(groups) == 0 || len(groups[len(groups)-1]) >= runnerShardSize {
			groups = append(groups, nil)
		}
		groups[len(groups)-1] = append(groups[len(groups)-1], it)
	}
	b, _ := json.Marshal(infos)
	must(os.WriteFile(c.Cases, b, 0o644))
	for k, grp := range groups {
		var main strings.Builder
		main.WriteString("package main\n\nimport (\n\t\"verif/explore\"\n\n")
		for _, it := range grp {
			fmt.Fprintf(&main, "\t_ %s\n", strconv.Quote("corpus/i/"+it.Pkg))
		}
		main.WriteString(")\n\nfunc main() { explore.Main() }\n")
		rd := fmt.Sprintf("run%d", k)
		must(os.MkdirAll(filepath.Join(c.Dir, rd), 0o755))
		must(os.WriteFile(filepath.Join(c.Dir, rd, "main.go"), []byte(main.String()), 0o644))
		if out, err := RunGo(c.Dir, "build", "-buildvcs=false", "-o", c.runnerPath(k), "./"+rd); err != nil {
			fmt.Printf("SETUP-FAILED: building runner %d:\n%s\n", k, tail(string(out), 3000))
			os.Exit(2)
		}
	}
	b, _ = json.Marshal(c.Items)
	must(os.WriteFile(index, b, 0o644))
	if len(c.Items) > 30000 {
		// a thorough corpus leaves tens of gigabytes of objects of throw-away packages in the bulk cache; the runner
		// binaries are linked, nothing needs them any more
		_ = os.RemoveAll(BulkCache)
		_ = os.MkdirAll(BulkCache, 0o755)
	}
	return c
}

// Explore runs the runner over all runnable cases for the scenario families, sharded over cores.
func (c *Corpus) Explore(families string, thorough bool, maxExecs int) ([]*explore.Result, error) {
	runners := c.Runners()
	const perRunner = 16
	shards := perRunner * len(runners)
	outs := make([]string, shards)
	errs := make([]error, shards)
	Parallel(shards, 16, func(j int) {
		i := j % perRunner
		outs[j] = filepath.Join(c.Dir, fmt.Sprintf("res-%d-%d.jsonl", os.Getpid(), j))
		args := []string{"-cases", c.Cases, "-scenarios", families, "-shard", strconv.Itoa(i), "-shards", strconv.Itoa(perRunner), "-max", strconv.Itoa(maxExecs), "-out", outs[j]}
		if thorough {
			args = append(args, "-thorough")
		}
		if por := os.Getenv("VERIF_POR"); por != "" {
			args = append(args, "-por", por)
		}
		cmd := exec.Command(runners[j/perRunner], args...)
		cmd.Env = append(os.Environ(), "GOMAXPROCS=2")
		var stderr bytes.Buffer
		cmd.Stderr = &stderr
		if err := cmd.Run(); err != nil {
			errs[j] = fmt.Errorf("runner shard %d: %v\n%s", j, err, tail(stderr.String(), 4000))
		}
	})
	var all []*explore.Result
	for i, p := range outs {
		if errs[i] != nil {
			return nil, errs[i]
		}
		f, err := os.Open(p)
		if err != nil {
			return nil, err
		}
		dec := json.NewDecoder(f)
		for dec.More() {
			var r explore.Result
			if err := dec.Decode(&r); err != nil {
				f.Close()
				return nil, err
			}
			all = append(all, &r)
		}
		f.Close()
		_ = os.Remove(p)
	}
	sort.SliceStable(all, func(i, j int) bool {
		if all[i].Pkg != all[j].Pkg {
			return all[i].Pkg < all[j].Pkg
		}
		return all[i].Scenario < all[j].Scenario
	})
	return all, nil
}

func tail(s string, n int) string {
	if len(s) > n {
		return "…" + s[len(s)-n:]
	}
	return s
}
