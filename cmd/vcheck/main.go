// vcheck is the single entry point of the verification machinery:
//
//	vcheck run <ID> --tier quick|thorough
//	vcheck replay <file>
//	vcheck corpus|explore ...   (diagnostics)
package main

import (
	"fmt"
	"os"
)

func main() {
	if len(os.Args) < 2 {
		fmt.Println("usage: vcheck run <ID> [--tier quick|thorough] | replay <file> | corpus <tier> | explore <tier> <families>")
		os.Exit(2)
	}
	switch os.Args[1] {
	case "run":
		if len(os.Args) < 3 {
			fmt.Println("usage: vcheck run <ID> [--tier quick|thorough]")
			os.Exit(2)
		}
		id := os.Args[2]
		if _, ok := dynProps[id]; ok {
			runDynamic(id, os.Args[3:])
			return
		}
		switch id {
		case "C04":
			runC04(os.Args[3:])
		case "C12":
			runC12(os.Args[3:])
		case "C15":
			runC15(os.Args[3:])
		case "C16":
			runC16(os.Args[3:])
		case "C11":
			runC11(os.Args[3:])
		case "C09":
			runC09(os.Args[3:])
		case "C10":
			runC10(os.Args[3:])
		case "C13":
			runC13(os.Args[3:])
		case "C14":
			runC14(os.Args[3:])
		}
		fmt.Println("no check for property", id)
		os.Exit(2)
	case "replay":
		cmdReplay(os.Args[2:])
	case "corpus":
		cmdCorpus(os.Args[2:])
	case "explore":
		cmdExplore(os.Args[2:])
	default:
		fmt.Println("unknown command", os.Args[1])
		os.Exit(2)
	}
}
