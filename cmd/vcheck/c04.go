package main

import (
	"fmt"
	"os"
	"path/filepath"
	"regexp"
	"sort"
	"strings"

	"verif/internal/pipe"
)

// c04Prog is one program of the C04 universe: a user package (one or more files), the files the
// generator is invoked on, and the signature(s) the declaration denotes.
type c04Prog struct {
	Family  string
	Name    string            // one-line description
	Files   map[string]string // file name -> source (package clause is added)
	Invoke  [][]string        // generator invocations (file lists)
	Asserts []string          // compile-time signature identity assertions: "var _ func(...) ... = Init"
	Pre     string            // precondition string for known-finding matching
	Imports []string          // extra imports needed by the assertion file

	pkg     string
	exit    []int
	stderr  []string
	compile string
}

type tyCase struct {
	Label   string
	Expr    string // how the user writes the type
	Imports string // import lines the user file needs
	Decls   string // extra declarations in the user package
	Zero    string // expression of that type
	NonNil  bool   // not nilable: `return nil, err` would not compile
}

const extImport = "\t\"corpus/ext\"\n"
const ext2Import = "\te2 \"corpus/ext2\"\n"

func typeUniverse() []tyCase {
	return []tyCase{
		{Label: "local-named-struct", Expr: "Local", Decls: "type Local struct{ A int }\n", Zero: "Local{}", NonNil: true},
		{Label: "pointer-to-local", Expr: "*Local", Decls: "type Local struct{ A int }\n", Zero: "&Local{}"},
		{Label: "external-named", Expr: "ext.T", Imports: extImport, Zero: "ext.T{}", NonNil: true},
		{Label: "pointer-to-external", Expr: "*ext.T", Imports: extImport, Zero: "&ext.T{}"},
		{Label: "aliased-import", Expr: "*e2.T", Imports: ext2Import, Zero: "&e2.T{}"},
		{Label: "same-name-two-packages", Expr: "map[*ext.T]*e2.T", Imports: extImport + ext2Import, Zero: "map[*ext.T]*e2.T{}"},
		{Label: "slice-of-local", Expr: "[]Local", Decls: "type Local struct{ A int }\n", Zero: "[]Local{}"},
		{Label: "slice-of-pointer-external", Expr: "[]*ext.T", Imports: extImport, Zero: "[]*ext.T{}"},
		{Label: "array", Expr: "[3]Local", Decls: "type Local struct{ A int }\n", Zero: "[3]Local{}", NonNil: true},
		{Label: "map", Expr: "map[string]*Local", Decls: "type Local struct{ A int }\n", Zero: "map[string]*Local{}"},
		{Label: "map-external-key", Expr: "map[ext.K]ext.T", Imports: extImport, Zero: "map[ext.K]ext.T{}"},
		{Label: "chan", Expr: "chan Local", Decls: "type Local struct{ A int }\n", Zero: "make(chan Local)"},
		{Label: "recv-chan", Expr: "<-chan Local", Decls: "type Local struct{ A int }\n", Zero: "make(<-chan Local)"},
		{Label: "send-chan", Expr: "chan<- Local", Decls: "type Local struct{ A int }\n", Zero: "make(chan<- Local)"},
		{Label: "chan-of-chan", Expr: "chan (<-chan int)", Zero: "make(chan (<-chan int))"},
		{Label: "func", Expr: "func(Local) error", Decls: "type Local struct{ A int }\n", Zero: "func(Local) error { return nil }"},
		{Label: "func-multi-result", Expr: "func(int, string) (*Local, error)", Decls: "type Local struct{ A int }\n", Zero: "func(int, string) (*Local, error) { return nil, nil }"},
		{Label: "func-no-result", Expr: "func(int)", Zero: "func(int) {}"},
		{Label: "variadic-func", Expr: "func(int, ...string) *Local", Decls: "type Local struct{ A int }\n", Zero: "func(int, ...string) *Local { return nil }"},
		{Label: "struct-literal", Expr: "struct {\n\tA int\n\tB ext.T\n}", Imports: extImport, Zero: "struct {\n\tA int\n\tB ext.T\n}{}", NonNil: true},
		{Label: "struct-literal-tags", Expr: "struct {\n\tA int `json:\"a\"`\n}", Zero: "struct {\n\tA int `json:\"a\"`\n}{}", NonNil: true},
		{Label: "struct-literal-embedded", Expr: "struct{ ext.T }", Imports: extImport, Zero: "struct{ ext.T }{}", NonNil: true},
		{Label: "interface-literal", Expr: "interface{ M(Local) ext.T }", Imports: extImport, Decls: "type Local struct{ A int }\n", Zero: "nil"},
		{Label: "interface-embedding", Expr: "interface {\n\text.Iface\n\tN()\n}", Imports: extImport, Zero: "nil"},
		{Label: "empty-interface", Expr: "interface{}", Zero: "nil"},
		{Label: "any", Expr: "any", Zero: "nil"},
		{Label: "generic-instance", Expr: "Gen[int]", Decls: "type Gen[T any] struct{ V T }\n", Zero: "Gen[int]{}", NonNil: true},
		{Label: "pointer-generic-instance-external-arg", Expr: "*Gen[ext.T]", Imports: extImport, Decls: "type Gen[T any] struct{ V T }\n", Zero: "&Gen[ext.T]{}"},
		{Label: "external-generic-instance", Expr: "ext.Box[string]", Imports: extImport, Zero: "ext.Box[string]{}", NonNil: true},
		{Label: "local-alias", Expr: "Alias", Decls: "type Local struct{ A int }\ntype Alias = *Local\n", Zero: "Alias(nil)"},
		{Label: "external-alias", Expr: "ext.Alias", Imports: extImport, Zero: "ext.Alias(nil)"},
		{Label: "string", Expr: "string", Zero: "\"s\"", NonNil: true},
		{Label: "int", Expr: "int", Zero: "1", NonNil: true},
		{Label: "byte-slice", Expr: "[]byte", Zero: "[]byte{}"},
		{Label: "error-interface-value", Expr: "fmt.Stringer", Imports: "\t\"fmt\"\n", Zero: "nil"},
		{Label: "named-func-type", Expr: "Handler", Decls: "type Handler func(int) error\n", Zero: "Handler(nil)"},
		{Label: "named-map-external", Expr: "ext.M", Imports: extImport, Zero: "ext.M{}"},
	}
}

const extSrc = `package ext

type T struct{ A int }
type K string
type Alias = *T
type Iface interface{ M() }
type Box[V any] struct{ V V }
type M map[string]T
`
const ext2Src = `package ext

type T struct{ B int }
`

func wrap(mode string, e string) string {
	if mode == "sync" {
		return "kessoku.Provide(" + e + ")"
	}
	return "kessoku.Async(kessoku.Provide(" + e + "))"
}

func errRes(mode string, res string) (string, string) {
	if mode == "async-fallible" {
		return "(" + res + ", error)", ", nil"
	}
	return res, ""
}

// e1 builds the type-universe programs.
func e1Programs(thorough bool) []*c04Prog {
	var out []*c04Prog
	modes := []string{"sync", "async", "async-fallible"}
	for _, tc := range typeUniverse() {
		for _, pos := range []string{"flow", "arg", "result", "field"} {
			for _, mode := range modes {
				ctxParam := ""
				imports := "\t\"github.com/mazrean/kessoku\"\n" + tc.Imports
				assertImports := tc.Imports
				if mode != "sync" {
					ctxParam = "context.Context"
					assertImports += "\t\"context\"\n"
				}
				var body strings.Builder
				body.WriteString(tc.Decls)
				body.WriteString("type Y struct{ A int }\ntype R struct{ A int }\n\n")
				yres, ynil := errRes(mode, "*Y")
				fmt.Fprintf(&body, "func NewY() %s { return &Y{}%s }\n\n", yres, ynil)
				var inject, assert string
				errSuffix := ""
				if mode == "async-fallible" {
					errSuffix = ", error"
				}
				sig := func(params []string, res string) string {
					var ps []string
					if ctxParam != "" {
						ps = append(ps, ctxParam)
					}
					ps = append(ps, params...)
					r := res
					if errSuffix != "" {
						r = "(" + res + errSuffix + ")"
					}
					return "var _ func(" + strings.Join(ps, ", ") + ") " + r + " = Init"
				}
				switch pos {
				case "flow":
					xres, xnil := errRes(mode, tc.Expr)
					fmt.Fprintf(&body, "func NewX() %s { return %s%s }\n\nfunc NewR(x %s, y *Y) *R { return &R{} }\n\n", xres, tc.Zero, xnil, tc.Expr)
					inject = fmt.Sprintf("var _ = kessoku.Inject[*R](\n\t\"Init\",\n\t%s,\n\t%s,\n\tkessoku.Provide(NewR),\n)\n", wrap(mode, "NewX"), wrap(mode, "NewY"))
					assert = sig(nil, "*R")
				case "arg":
					fmt.Fprintf(&body, "func NewR(x %s, y *Y) *R { return &R{} }\n\n", tc.Expr)
					inject = fmt.Sprintf("var _ = kessoku.Inject[*R](\n\t\"Init\",\n\t%s,\n\tkessoku.Provide(NewR),\n)\n", wrap(mode, "NewY"))
					assert = sig([]string{tc.Expr}, "*R")
				case "result":
					xres, xnil := errRes(mode, tc.Expr)
					fmt.Fprintf(&body, "type Z struct{ A int }\n\nfunc NewZ() *Z { return &Z{} }\n\nfunc NewX(y *Y, z *Z) %s { return %s%s }\n\n", xres, tc.Zero, xnil)
					inject = fmt.Sprintf("var _ = kessoku.Inject[%s](\n\t\"Init\",\n\t%s,\n\t%s,\n\t%s,\n)\n", tc.Expr, wrap(mode, "NewY"), wrap(mode, "NewZ"), wrap("sync", "NewX"))
					assert = sig(nil, tc.Expr)
				case "field":
					sres, snil := errRes(mode, "*S")
					fmt.Fprintf(&body, "type S struct {\n\tF %s\n\tG int\n}\n\nfunc NewS() %s { return &S{F: %s}%s }\n\nfunc NewR(x %s, y *Y) *R { return &R{} }\n\n", tc.Expr, sres, tc.Zero, snil, tc.Expr)
					inject = fmt.Sprintf("var _ = kessoku.Inject[*R](\n\t\"Init\",\n\t%s,\n\tkessoku.Struct[*S](),\n\t%s,\n\tkessoku.Provide(NewR),\n)\n", wrap(mode, "NewS"), wrap(mode, "NewY"))
					assert = sig(nil, "*R")
					if tc.Expr == "int" {
						continue // field G int would duplicate the supplier
					}
				}
				pre := "types=" + tc.Label + ",position=" + pos + ",mode=" + mode
				if tc.NonNil && pos == "result" {
					pre += ",non-nilable-result"
				}
				src := "import (\n" + imports + ")\n\n" + body.String() + inject
				out = append(out, &c04Prog{Family: "E1", Name: tc.Label + " @" + pos + " " + mode, Files: map[string]string{"k.go": src}, Invoke: [][]string{{"k.go"}},
					Asserts: []string{assert}, Pre: pre, Imports: []string{assertImports}})
			}
		}
	}
	return out
}

// e2 builds the adversarial-name programs.
func e2Programs(thorough bool) []*c04Prog {
	var out []*c04Prog
	names := []string{"Eg", "Ctx", "Ch", "Zero", "Err", "Err0", "Errgroup", "Context", "Kessoku", "Type", "Go", "Func", "Len", "String", "Error", "Num", "Str", "Val", "Y0", "YCh", "Foo0", "FooCh", "Nil", "New", "Make", "Close", "Select", "Default", "Range", "Chan", "Map", "Struct", "Interface", "Var", "Import", "Package", "Return", "Any", "Bool", "Int", "True", "Iota", "Cap", "Append", "Panic", "Min", "Max", "Clear", "Arg0", "Result0"}
	modes := []string{"sync", "async", "async-fallible"}
	for _, n := range names {
		for _, mode := range modes {
			for _, shape := range []string{"type", "type-and-base", "pkg-ident"} {
				var body strings.Builder
				lower := strings.ToLower(n[:1]) + n[1:]
				typeName := n
				extra := ""
				switch shape {
				case "type-and-base":
					// a second type whose derived name collides with the suffixed form (Foo + Foo0, Foo + FooCh)
					base := strings.TrimSuffix(strings.TrimSuffix(n, "0"), "Ch")
					if base == n {
						continue
					}
					extra = fmt.Sprintf("type %s struct{ A int }\n\nfunc New%sBase() %s { return &%s{}%s }\n\n", base, n, firstRes(mode, "*"+base), base, secondRes(mode))
				case "pkg-ident":
					// a package-level identifier with the lower-camel name the allocator would pick
					if isKeywordOrPredeclared(lower) {
						continue
					}
					extra = fmt.Sprintf("var %s = 1\n\nvar _ = %s\n\n", lower, lower)
				}
				fmt.Fprintf(&body, "type %s struct{ A int }\ntype Y struct{ A int }\ntype R struct{ A int }\n\n%s", typeName, extra)
				fmt.Fprintf(&body, "func NewN() %s { return &%s{}%s }\n\nfunc NewY() %s { return &Y{}%s }\n\n", firstRes(mode, "*"+typeName), typeName, secondRes(mode), firstRes(mode, "*Y"), secondRes(mode))
				params := "n *" + typeName + ", y *Y"
				provs := wrap(mode, "NewN") + ",\n\t" + wrap(mode, "NewY")
				if shape == "type-and-base" {
					base := strings.TrimSuffix(strings.TrimSuffix(n, "0"), "Ch")
					params += ", b *" + base
					provs += ",\n\t" + wrap(mode, "New"+n+"Base")
				}
				fmt.Fprintf(&body, "func NewR(%s) *R { return &R{} }\n\n", params)
				inject := fmt.Sprintf("var _ = kessoku.Inject[*R](\n\t\"Init\",\n\t%s,\n\tkessoku.Provide(NewR),\n)\n", provs)
				src := "import (\n\t\"github.com/mazrean/kessoku\"\n)\n\n" + body.String() + inject
				out = append(out, &c04Prog{Family: "E2", Name: "name " + n + " (" + shape + ") " + mode, Files: map[string]string{"k.go": src}, Invoke: [][]string{{"k.go"}},
					Pre: "name=" + n + ",shape=" + shape + ",mode=" + mode})
				if shape == "type-and-base" {
					// an EARLIER injector of the same file has already been given the base name: in this one the base
					// type's variable gets the suffixed name, which is exactly the other type's own base name
					base := strings.TrimSuffix(strings.TrimSuffix(n, "0"), "Ch")
					early := fmt.Sprintf("type Early struct{ A int }\n\nfunc NewEarly(b *%s) *Early { return &Early{} }\n\nvar _ = kessoku.Inject[*Early](\n\t\"InitEarly\",\n\t%s,\n\tkessoku.Provide(NewEarly),\n)\n\n", base, wrap(mode, "New"+n+"Base"))
					src2 := strings.Replace(src, "var _ = kessoku.Inject[*R](", early+"var _ = kessoku.Inject[*R](", 1)
					// the base type is discovered (and named) BEFORE its look-alike in this injector
					src2 = strings.Replace(src2, "func NewR(n *"+typeName+", y *Y, b *"+base+") *R", "func NewR(b *"+base+", n *"+typeName+", y *Y) *R", 1)
					out = append(out, &c04Prog{Family: "E2", Name: "name " + n + " (type-and-base, after an earlier injector that uses the base type) " + mode, Files: map[string]string{"k.go": src2}, Invoke: [][]string{{"k.go"}},
						Pre: "name=" + n + ",shape=type-and-base-after-base,mode=" + mode})
				}
				if shape == "pkg-ident" {
					// the same file in a SECOND PACKAGE of the same package name (another directory), generated in one
					// invocation after a file of the first: each package's own identifiers must still be respected
					pre := "import (\n\t\"github.com/mazrean/kessoku\"\n)\n\ntype PreA struct{ A int }\ntype PreB struct{ A int }\n\nfunc NewPreA() *PreA { return &PreA{} }\n\nfunc NewPreB(a *PreA) *PreB { return &PreB{} }\n\nvar _ = kessoku.Inject[*PreB](\"InitPre\", kessoku.Provide(NewPreA), kessoku.Provide(NewPreB))\n"
					out = append(out, &c04Prog{Family: "E2", Name: "name " + n + " (pkg-ident, in a second package of the same name in one invocation) " + mode, Files: map[string]string{"a_first.go": pre, "sub/k.go": src}, Invoke: [][]string{{"a_first.go", "sub/k.go"}},
						Pre: "name=" + n + ",shape=second-package,mode=" + mode})
				}
				if shape == "type" {
					// the same file as the SECOND file of one invocation (the allocator is shared across files)
					pre := "import (\n\t\"github.com/mazrean/kessoku\"\n)\n\ntype PreA struct{ A int }\ntype PreB struct{ A int }\n\nfunc NewPreA() *PreA { return &PreA{} }\n\nfunc NewPreB(a *PreA) *PreB { return &PreB{} }\n\nvar _ = kessoku.Inject[*PreB](\"InitPre\", kessoku.Provide(NewPreA), kessoku.Provide(NewPreB))\n"
					out = append(out, &c04Prog{Family: "E2", Name: "name " + n + " (type, second file of the invocation) " + mode, Files: map[string]string{"a_first.go": pre, "k.go": src}, Invoke: [][]string{{"a_first.go", "k.go"}},
						Pre: "name=" + n + ",shape=second-file,mode=" + mode})
				}
			}
		}
	}
	// many requests for one base name within one invocation: the allocator's suffixes walk through int0..int8..,
	// uint8.., float32.., complex64/128 (predeclared identifiers that END in digits)
	for _, n := range []string{"Int", "Uint", "Float", "Complex", "Foo"} {
		for _, mode := range []string{"sync", "async"} {
			const many = 130
			var body strings.Builder
			fmt.Fprintf(&body, "type %s struct{ A int }\n\nfunc NewN() *%s { return &%s{} }\n\ntype Y struct{ A int }\n\nfunc NewY() *Y { return &Y{} }\n\n", n, n, n)
			for i := 0; i < many; i++ {
				fmt.Fprintf(&body, "type R%d struct{ A int }\n\nfunc NewR%d(n *%s, y *Y) *R%d { return &R%d{} }\n\nvar _ = kessoku.Inject[*R%d](\"Init%d\", %s, %s, kessoku.Provide(NewR%d))\n\n", i, i, n, i, i, i, i, wrap(mode, "NewN"), wrap(mode, "NewY"), i)
			}
			src := "import (\n\t\"github.com/mazrean/kessoku\"\n)\n\n" + body.String()
			out = append(out, &c04Prog{Family: "E2", Name: fmt.Sprintf("name %s (%d injectors in one file, each requesting the base name) %s", n, many, mode), Files: map[string]string{"k.go": src}, Invoke: [][]string{{"k.go"}},
				Pre: fmt.Sprintf("name=%s,shape=many-injectors,mode=%s", n, mode)})
		}
	}
	// imports whose package name collides with a generated identifier or with another import
	for _, mode := range modes {
		for _, pk := range []string{"errgroup", "context", "eg", "ctx", "kessoku", "y"} {
			src := fmt.Sprintf("import (\n\t\"github.com/mazrean/kessoku\"\n\t\"corpus/names/%s\"\n)\n\ntype Y struct{ A int }\ntype R struct{ A int }\n\nfunc NewT() %s { return &%s.T{}%s }\n\nfunc NewY() %s { return &Y{}%s }\n\nfunc NewR(t *%s.T, y *Y) *R { return &R{} }\n\nvar _ = kessoku.Inject[*R](\n\t\"Init\",\n\t%s,\n\t%s,\n\tkessoku.Provide(NewR),\n)\n",
				pk, firstRes(mode, "*"+pk+".T"), pk, secondRes(mode), firstRes(mode, "*Y"), secondRes(mode), pk, wrap(mode, "NewT"), wrap(mode, "NewY"))
			if pk == "kessoku" {
				src = strings.Replace(src, "\"github.com/mazrean/kessoku\"", "k \"github.com/mazrean/kessoku\"", 1)
				src = strings.ReplaceAll(src, "kessoku.Inject", "k.Inject")
				src = strings.ReplaceAll(src, "kessoku.Provide", "k.Provide")
				src = strings.ReplaceAll(src, "kessoku.Async", "k.Async")
			}
			out = append(out, &c04Prog{Family: "E2", Name: "user import named " + pk + " " + mode, Files: map[string]string{"k.go": src}, Invoke: [][]string{{"k.go"}}, Pre: "import-name=" + pk + ",mode=" + mode})
		}
	}
	return out
}

func firstRes(mode, t string) string {
	if mode == "async-fallible" {
		return "(" + t + ", error)"
	}
	return t
}

func secondRes(mode string) string {
	if mode == "async-fallible" {
		return ", nil"
	}
	return ""
}

func isKeywordOrPredeclared(s string) bool {
	for _, k := range strings.Fields("break default func interface select case defer go map struct chan else goto package switch const fallthrough if range type continue for import return var any bool byte comparable complex64 complex128 error float32 float64 int int8 int16 int32 int64 rune string uint uint8 uint16 uint32 uint64 uintptr true false iota nil append cap clear close complex copy delete imag len make max min new panic print println real recover") {
		if k == s {
			return true
		}
	}
	return false
}

// e3 builds the several-injectors / several-files programs.
func e3Programs(thorough bool) []*c04Prog {
	shapes := map[string]func(i int) (decls, inject string){
		"sync": func(i int) (string, string) {
			return fmt.Sprintf("type A%[1]d struct{ V int }\ntype B%[1]d struct{ V int }\n\nfunc NewA%[1]d() *A%[1]d { return &A%[1]d{} }\n\nfunc NewB%[1]d(a *A%[1]d) *B%[1]d { return &B%[1]d{} }\n\n", i),
				fmt.Sprintf("var _ = kessoku.Inject[*B%[1]d](\"Init%[1]d\", kessoku.Provide(NewA%[1]d), kessoku.Provide(NewB%[1]d))\n\n", i)
		},
		"async": func(i int) (string, string) {
			return fmt.Sprintf("type A%[1]d struct{ V int }\ntype C%[1]d struct{ V int }\ntype B%[1]d struct{ V int }\n\nfunc NewA%[1]d() *A%[1]d { return &A%[1]d{} }\n\nfunc NewC%[1]d() *C%[1]d { return &C%[1]d{} }\n\nfunc NewB%[1]d(a *A%[1]d, c *C%[1]d) *B%[1]d { return &B%[1]d{} }\n\n", i),
				fmt.Sprintf("var _ = kessoku.Inject[*B%[1]d](\"Init%[1]d\", kessoku.Async(kessoku.Provide(NewA%[1]d)), kessoku.Async(kessoku.Provide(NewC%[1]d)), kessoku.Provide(NewB%[1]d))\n\n", i)
		},
		"async-fallible": func(i int) (string, string) {
			return fmt.Sprintf("type A%[1]d struct{ V int }\ntype C%[1]d struct{ V int }\ntype B%[1]d struct{ V int }\n\nfunc NewA%[1]d() (*A%[1]d, error) { return &A%[1]d{}, nil }\n\nfunc NewC%[1]d() (*C%[1]d, error) { return &C%[1]d{}, nil }\n\nfunc NewB%[1]d(a *A%[1]d, c *C%[1]d) (*B%[1]d, error) { return &B%[1]d{}, nil }\n\n", i),
				fmt.Sprintf("var _ = kessoku.Inject[*B%[1]d](\"Init%[1]d\", kessoku.Async(kessoku.Provide(NewA%[1]d)), kessoku.Async(kessoku.Provide(NewC%[1]d)), kessoku.Provide(NewB%[1]d))\n\n", i)
		},
		"async-chain": func(i int) (string, string) {
			return fmt.Sprintf("type A%[1]d struct{ V int }\ntype C%[1]d struct{ V int }\ntype D%[1]d struct{ V int }\ntype B%[1]d struct{ V int }\n\nfunc NewA%[1]d() *A%[1]d { return &A%[1]d{} }\n\nfunc NewC%[1]d() *C%[1]d { return &C%[1]d{} }\n\nfunc NewD%[1]d(c *C%[1]d) (*D%[1]d, error) { return &D%[1]d{}, nil }\n\nfunc NewB%[1]d(a *A%[1]d, d *D%[1]d) *B%[1]d { return &B%[1]d{} }\n\n", i),
				fmt.Sprintf("var _ = kessoku.Inject[*B%[1]d](\"Init%[1]d\", kessoku.Async(kessoku.Provide(NewA%[1]d)), kessoku.Async(kessoku.Provide(NewC%[1]d)), kessoku.Async(kessoku.Provide(NewD%[1]d)), kessoku.Provide(NewB%[1]d))\n\n", i)
		},
		"struct": func(i int) (string, string) {
			return fmt.Sprintf("type F%[1]d struct{ V int }\ntype S%[1]d struct{ F *F%[1]d }\ntype B%[1]d struct{ V int }\n\nfunc NewS%[1]d() *S%[1]d { return &S%[1]d{} }\n\nfunc NewB%[1]d(f *F%[1]d) *B%[1]d { return &B%[1]d{} }\n\n", i),
				fmt.Sprintf("var _ = kessoku.Inject[*B%[1]d](\"Init%[1]d\", kessoku.Provide(NewS%[1]d), kessoku.Struct[*S%[1]d](), kessoku.Provide(NewB%[1]d))\n\n", i)
		},
		"bind": func(i int) (string, string) {
			return fmt.Sprintf("type I%[1]d interface{ M%[1]d() }\ntype A%[1]d struct{ V int }\n\nfunc (*A%[1]d) M%[1]d() {}\n\ntype B%[1]d struct{ V int }\n\nfunc NewA%[1]d() *A%[1]d { return &A%[1]d{} }\n\nfunc NewB%[1]d(a I%[1]d) *B%[1]d { return &B%[1]d{} }\n\n", i),
				fmt.Sprintf("var _ = kessoku.Inject[*B%[1]d](\"Init%[1]d\", kessoku.Bind[I%[1]d](kessoku.Provide(NewA%[1]d)), kessoku.Provide(NewB%[1]d))\n\n", i)
		},
		"arg-ctx": func(i int) (string, string) {
			return fmt.Sprintf("type A%[1]d struct{ V int }\ntype C%[1]d struct{ V int }\ntype B%[1]d struct{ V int }\n\nfunc NewA%[1]d(ctx context.Context, n int) *A%[1]d { return &A%[1]d{} }\n\nfunc NewC%[1]d(s string) *C%[1]d { return &C%[1]d{} }\n\nfunc NewB%[1]d(a *A%[1]d, c *C%[1]d) *B%[1]d { return &B%[1]d{} }\n\n", i),
				fmt.Sprintf("var _ = kessoku.Inject[*B%[1]d](\"Init%[1]d\", kessoku.Async(kessoku.Provide(NewA%[1]d)), kessoku.Async(kessoku.Provide(NewC%[1]d)), kessoku.Provide(NewB%[1]d))\n\n", i)
		},
	}
	var names []string
	for k := range shapes {
		names = append(names, k)
	}
	sort.Strings(names)
	header := func(src string) string {
		imp := "import (\n"
		if strings.Contains(src, "context.") {
			imp += "\t\"context\"\n\n"
		}
		return imp + "\t\"github.com/mazrean/kessoku\"\n)\n\n" + src
	}
	var out []*c04Prog
	var seqs [][]string
	var rec func(cur []string)
	maxLen := 2
	if thorough {
		maxLen = 3
	}
	rec = func(cur []string) {
		if len(cur) > 0 {
			seqs = append(seqs, append([]string(nil), cur...))
		}
		if len(cur) == maxLen {
			return
		}
		for _, n := range names {
			rec(append(cur, n))
		}
	}
	rec(nil)
	for _, seq := range seqs {
		// all injectors in one file
		var decls, injects strings.Builder
		for i, s := range seq {
			d, inj := shapes[s](i)
			decls.WriteString(d)
			injects.WriteString(inj)
		}
		pre := "injectors-per-file=" + fmt.Sprint(len(seq)) + ",shapes=" + strings.Join(seq, "+")
		out = append(out, &c04Prog{Family: "E3", Name: "one file: " + strings.Join(seq, ", "), Files: map[string]string{"k.go": header(decls.String() + injects.String())}, Invoke: [][]string{{"k.go"}}, Pre: pre + ",files=1"})
		if len(seq) == 2 {
			// one injector per file, both files in ONE invocation (shared allocator), and in two invocations
			files := map[string]string{}
			for i, s := range seq {
				d, inj := shapes[s](i)
				files[fmt.Sprintf("k%d.go", i)] = header(d + inj)
			}
			out = append(out, &c04Prog{Family: "E3", Name: "two files, one invocation: " + strings.Join(seq, ", "), Files: files, Invoke: [][]string{{"k0.go", "k1.go"}}, Pre: pre + ",files=2,invocations=1"})
			out = append(out, &c04Prog{Family: "E3", Name: "two files, two invocations: " + strings.Join(seq, ", "), Files: files, Invoke: [][]string{{"k0.go"}, {"k1.go"}}, Pre: pre + ",files=2,invocations=2"})
		}
	}
	return out
}

var rePos = regexp.MustCompile(`^[^\s:]+\.go:\d+:\d+: `)
var reIdent = regexp.MustCompile("`[^`]*`|\"[^\"]*\"")

// normDiag turns a compiler diagnostic into a mechanism signature: position stripped, identifiers
// that vary with the input replaced.
func normDiag(line string) string {
	line = rePos.ReplaceAllString(line, "")
	switch {
	case strings.HasPrefix(line, "declared and not used: "):
		v := strings.TrimPrefix(line, "declared and not used: ")
		if v == "ctx" {
			return "declared and not used: ctx"
		}
		return "declared and not used: <var>"
	case strings.HasPrefix(line, "undefined: "):
		return "undefined: <ident>"
	case strings.HasPrefix(line, "cannot use nil as "):
		return "cannot use nil as <T> value in return statement"
	case strings.Contains(line, "redeclared in this block"):
		return "<ident> redeclared in this block"
	case strings.HasPrefix(line, "cannot use ") && strings.Contains(line, " as "):
		return "cannot use <expr> as <T> value"
	case strings.Contains(line, "imported and not used"):
		return "<pkg> imported and not used"
	case strings.Contains(line, "is not a type"):
		return "<ident> is not a type"
	}
	line = reIdent.ReplaceAllString(line, "<q>")
	if len(line) > 120 {
		line = line[:120]
	}
	return line
}

func firstDiag(compile string) string {
	for _, l := range strings.Split(compile, "\n") {
		l = strings.TrimSpace(l)
		if l == "" || strings.HasPrefix(l, "#") || strings.Contains(l, "too many errors") {
			continue
		}
		return l
	}
	return strings.TrimSpace(compile)
}

func runC04(args []string) {
	tier := parseTier(args)
	rc := newRunCtx("C04", tier)
	rc.Level = "exploration"
	env := pipe.Setup()
	th := rc.Thorough()
	var progs []*c04Prog
	progs = append(progs, e1Programs(th)...)
	progs = append(progs, e2Programs(th)...)
	progs = append(progs, e3Programs(th)...)
	dir := filepath.Join(env.Work, fmt.Sprintf("c04-%s-%d", tier, os.Getpid()))
	_ = os.RemoveAll(dir)
	env.WriteModule(dir, "corpus")
	defer os.RemoveAll(dir)
	must := func(err error) {
		if err != nil {
			panic(err)
		}
	}
	must(os.MkdirAll(filepath.Join(dir, "ext"), 0o755))
	must(os.WriteFile(filepath.Join(dir, "ext", "ext.go"), []byte(extSrc), 0o644))
	must(os.MkdirAll(filepath.Join(dir, "ext2"), 0o755))
	must(os.WriteFile(filepath.Join(dir, "ext2", "ext.go"), []byte(ext2Src), 0o644))
	for _, pk := range []string{"errgroup", "context", "eg", "ctx", "kessoku", "y"} {
		must(os.MkdirAll(filepath.Join(dir, "names", pk), 0o755))
		must(os.WriteFile(filepath.Join(dir, "names", pk, "x.go"), []byte("package "+pk+"\n\ntype T struct{ A int }\n"), 0o644))
	}
	pipe.Parallel(len(progs), 32, func(i int) {
		p := progs[i]
		p.pkg = fmt.Sprintf("c%05d", i)
		pd := filepath.Join(dir, "o", p.pkg)
		must(os.MkdirAll(pd, 0o755))
		for name, src := range p.Files {
			must(os.MkdirAll(filepath.Dir(filepath.Join(pd, name)), 0o755))
			must(os.WriteFile(filepath.Join(pd, name), []byte("package "+p.pkg+"\n\n"+src), 0o644))
		}
		for _, inv := range p.Invoke {
			code, stderr := env.RunKessoku(pd, append([]string{"-l", "error"}, inv...)...)
			p.exit = append(p.exit, code)
			p.stderr = append(p.stderr, stderr)
		}
		ok := true
		for _, c := range p.exit {
			if c != 0 {
				ok = false
			}
		}
		if ok && len(p.Asserts) > 0 {
			// import only what the assertion text mentions
			text := strings.Join(p.Asserts, "\n")
			imps := ""
			for _, cand := range [][2]string{{`\bext\.`, extImport}, {`\be2\.`, ext2Import}, {`\bfmt\.`, "\t\"fmt\"\n"}, {`\bcontext\.`, "\t\"context\"\n"}} {
				if regexp.MustCompile(cand[0]).MatchString(text) {
					imps += cand[1]
				}
			}
			src := "package " + p.pkg + "\n\n"
			if imps != "" {
				src += "import (\n" + imps + ")\n\n"
			}
			src += text + "\n"
			must(os.WriteFile(filepath.Join(pd, "zz_assert.go"), []byte(src), 0o644))
		}
	})
	// compile everything; attribute diagnostics per package
	out, berr := pipe.RunGo(dir, "build", "-buildvcs=false", "-gcflags=-e", "./o/...")
	errs := splitBuildErrors(string(out), "corpus/o/")
	checkBuildOutput("E1-E3 programs", string(out), berr, errs)
	// the dynamic corpus (DESIGN §2.1) is compiled as well: its originals, uninstrumented
	corpus := env.BuildCorpus(tier)
	cout, cberr := pipe.RunGo(corpus.Dir, "build", "-buildvcs=false", "-gcflags=-e", "./o/...")
	cerrs := splitBuildErrors(string(cout), "corpus/o/")
	checkBuildOutput("declaration corpus", string(cout), cberr, cerrs)

	evals, refused, compiled := 0, 0, 0
	var invalidInputs []string
	distinctTexts := map[string]bool{}
	fam := map[string]int{}
	var samples []map[string]any
	for _, p := range progs {
		evals++
		fam[p.Family]++
		accepted := true
		for _, c := range p.exit {
			if c != 0 {
				accepted = false
			}
		}
		if !accepted {
			refused++ // the property only speaks about successful generation
			continue
		}
		for _, inv := range p.Invoke {
			for _, f := range inv {
				b, _ := os.ReadFile(filepath.Join(dir, "o", p.pkg, strings.TrimSuffix(f, ".go")+"_band.go"))
				distinctTexts[string(b)] = true
			}
		}
		msg, bad := errs[p.pkg]
		if !bad {
			msg, bad = errs[p.pkg+"/sub"] // a second package of the same name below the first one
		}
		if bad {
			d := firstDiag(msg)
			if !strings.Contains(d, "_band.go") && !strings.Contains(d, "zz_assert.go") {
				// the user's own file does not compile: not an input the property speaks about
				invalidInputs = append(invalidInputs, p.Family+": "+p.Name+": "+d)
				continue
			}
			kind := "does-not-compile"
			if strings.Contains(d, "zz_assert.go") {
				kind = "signature-type-differs"
			}
			gen := ""
			for _, inv := range p.Invoke {
				for _, f := range inv {
					gen += readFile(filepath.Join(dir, "o", p.pkg, strings.TrimSuffix(f, ".go")+"_band.go"))
				}
			}
			rc.Add(Finding{Kind: kind, Site: normDiag(d), Pre: p.Pre, Detail: d, Witness: p.Family + ": " + p.Name, Replay: map[string]any{"files": p.Files, "invoke": p.Invoke, "generated": gen, "compiler": msg}})
		} else {
			compiled++
		}
		if len(samples) < 4 && evals%211 == int(rc.Seed%211) {
			samples = append(samples, map[string]any{"family": p.Family, "program": p.Name, "assert": p.Asserts, "source": p.Files})
		}
	}
	ccompiled, crefused := 0, 0
	for _, it := range corpus.Items {
		if it.GenExit != 0 || !it.HasBand {
			crefused++
			continue
		}
		evals++
		distinctTexts[readFile(corpus.BandPath(it))] = true
		if msg, bad := cerrs[it.Pkg]; bad {
			d := firstDiag(msg)
			pre := "corpus"
			if it.Ref.NeededAsync {
				pre += ",async"
			} else {
				pre += ",sync"
			}
			if it.Ref.HasErr {
				pre += ",fallible"
			}
			for _, f := range []string{"struct", "value", "bind", "multi", "valtype", "prelude"} {
				if strings.Contains(it.Decl.Note+" "+it.Spec, f) {
					pre += "," + f
				}
			}
			rc.Add(Finding{Kind: "does-not-compile", Site: normDiag(d), Pre: pre, Detail: d, Witness: "corpus: " + it.Spec, Replay: map[string]any{"decl": it.Decl, "generated": readFile(corpus.BandPath(it)), "compiler": msg}})
		} else {
			ccompiled++
		}
	}
	if len(samples) == 0 {
		p := progs[0]
		samples = append(samples, map[string]any{"family": p.Family, "program": p.Name, "source": p.Files})
	}
	rc.Coverage = map[string]any{
		"evaluations":         evals,
		"distinct_nontrivial": len(distinctTexts),
		"rule":                "E1: type universe (" + fmt.Sprint(len(typeUniverse())) + " type expressions) x position {flows between providers, injector argument, requested type, expanded struct field} x {sync, async, async+fallible}; E2: adversarial type / package-level / import names (keywords, predeclared names, the generator's hard-coded locals eg ctx ch zero err errgroup, suffixed forms Foo+Foo0, Foo+FooCh) x 3 modes; E3: every sequence of 1..2 (quick) / 1..3 (thorough) injector shapes in one file, and every pair across two files in one / two invocations; plus every accepted declaration of the DESIGN §2.1 corpus. Oracle: the Go compiler (go build -gcflags=-e) on the user package + generated file, plus a compile-time assertion `var _ func(<declared types>) <declared results> = Init` that forces type identity of the generated signature. distinct = distinct generated file texts",
		"samples":             samples,
		"exhaustive":          true,
		"programs_by_family":  fam,
		"refused_by_generator_not_counted": refused,
		"compiled_ok":         compiled,
		"invalid_user_inputs_excluded": invalidInputs,
		"corpus_declarations": len(corpus.Items),
		"corpus_compiled_ok":  ccompiled,
		"tree_hash":           env.Hash,
	}
	rc.Assume = []string{"the listed type/name/shape universes are complete per axis; axes are crossed as listed, not all-with-all", "only compile and type errors count (no vet, no lint)"}
	rc.Finish()
}

var reHdr = regexp.MustCompile(`(?m)^# (\S+)`)

func splitBuildErrors(out, prefix string) map[string]string {
	res := map[string]string{}
	locs := reHdr.FindAllStringSubmatchIndex(out, -1)
	for i, l := range locs {
		pkg := strings.TrimPrefix(out[l[2]:l[3]], prefix)
		end := len(out)
		if i+1 < len(locs) {
			end = locs[i+1][0]
		}
		res[pkg] += strings.TrimSpace(out[l[1]:end])
	}
	return res
}

// checkBuildOutput refuses to interpret a build that failed for reasons other than per-package
// compile errors (a failed build that reports no package would otherwise read as "everything compiled").
func checkBuildOutput(what, out string, err error, perPkg map[string]string) {
	if err == nil {
		return
	}
	stray := 0
	for _, l := range strings.Split(out, "\n") {
		l = strings.TrimSpace(l)
		if l == "" || strings.HasPrefix(l, "#") {
			continue
		}
		if strings.HasPrefix(l, "go: ") || strings.Contains(l, "no space left on device") || strings.Contains(l, "signal: killed") || strings.Contains(l, "cannot find module") {
			stray++
		}
	}
	if len(perPkg) == 0 || stray > 0 {
		fmt.Printf("SETUP-FAILED: the compile step for the %s failed without attributable per-package errors (%v):\n%s\n", what, err, tailStr(out, 3000))
		os.Exit(2)
	}
}
