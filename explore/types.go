// Package explore runs registered injector cases under the controlled scheduler, for one
// scenario at a time (fault-free, a set of failing providers, a cancelling caller), and reports
// states, transitions, outcomes and property-independent observations. Classification per
// property happens in cmd/vcheck.
package explore

// ProvInfo is what the reference interpreter says about one provider with a call.
type ProvInfo struct {
	ID        string   `json:"id"`
	Async     bool     `json:"async,omitempty"`
	Fallible  bool     `json:"fallible,omitempty"`
	Needed    bool     `json:"needed,omitempty"`
	InputFree bool     `json:"input_free,omitempty"`
	ArgTerms  []string `json:"arg_terms,omitempty"`
	Deps      []string `json:"deps,omitempty"`
	TransDeps []string `json:"trans_deps,omitempty"`
}

// CaseInfo is the reference's view of one declaration, handed to the runner.
type CaseInfo struct {
	Pkg         string     `json:"pkg"`
	Spec        string     `json:"spec"`
	Term        string     `json:"term"`
	HasErr      bool       `json:"has_err"`
	HasCtx      bool       `json:"has_ctx"`
	NeededAsync bool       `json:"needed_async"`
	Provs       []ProvInfo `json:"provs"`
	Goroutines  int        `json:"goroutines"`
	// POR: explore this case with partial-order reduction (large shapes)
	POR bool `json:"por,omitempty"`
}

// Obs is one deduplicated observation (candidate violation) with a witness schedule.
type Obs struct {
	Kind     string `json:"kind"`
	Detail   string `json:"detail"`
	Site     string `json:"site,omitempty"`    // main return site when relevant
	Blocked  string `json:"blocked,omitempty"` // pending operations of blocked threads
	Count    int    `json:"count"`
	Schedule []int  `json:"schedule"`
	Log      string `json:"log,omitempty"`
	Stable   bool   `json:"stable"` // replayed twice with identical event logs
}

// Outcome is one distinct (result term, error, return site) triple observed at main return.
type Outcome struct {
	Term  string `json:"term"`
	Err   string `json:"err"`
	Site  string `json:"site"`
	Count int    `json:"count"`
}

// Result is the exploration result of one case under one scenario.
type Result struct {
	Pkg         string    `json:"pkg"`
	Scenario    string    `json:"scenario"`
	Fail        []string  `json:"fail,omitempty"`
	Cancel      bool      `json:"cancel,omitempty"`
	States      int       `json:"states"`
	Transitions int       `json:"transitions"`
	Execs       int       `json:"execs"`
	MaxDepth    int       `json:"max_depth"`
	Capped      bool      `json:"capped,omitempty"`
	Threads     int       `json:"threads"`
	Outcomes    []Outcome `json:"outcomes"`
	Obs         []Obs     `json:"obs,omitempty"`
	// MaxOverlap is the largest number of input-free Async providers simultaneously inside their
	// function in some reachable state; OverlapAll reports whether all of them were.
	MaxOverlap int  `json:"max_overlap"`
	OverlapAll bool `json:"overlap_all"`
	// ForcedAfter lists "p<q": input-free Async provider p was, in every execution in which it was
	// entered, entered only after Async provider q had exited.
	ForcedAfter []string `json:"forced_after,omitempty"`
	CoEnabled   bool     `json:"co_enabled"` // some state had two threads enabled
	Unsupported string   `json:"unsupported,omitempty"`
	WallMs      int64    `json:"wall_ms"`
	// POR: explored with dynamic partial-order reduction (States = states visited along the explored
	// interleavings, one or more per Mazurkiewicz trace; SleepBlocked = executions cut by sleep sets).
	POR          bool `json:"por,omitempty"`
	SleepBlocked int  `json:"sleep_blocked,omitempty"`
	// filled by -por=both: disagreement between the two explorers ("" = they agree), and the reduced run's size
	PORDiff   string `json:"por_diff,omitempty"`
	PORExecs  int    `json:"por_execs,omitempty"`
	PORStates int    `json:"por_states,omitempty"`
}

// Trace is the provider-level projection of one complete execution with its outcome.
type Trace struct {
	Proj     []string `json:"proj"` // enter:P, exit:P, cancel
	Term     string   `json:"term"`
	Err      string   `json:"err"`
	Returned bool     `json:"returned"`
	Race     bool     `json:"race,omitempty"`
}

// TraceSet is the set of all (projection, outcome) pairs of one case under one scenario, obtained
// by an exploration WITHOUT pruning (complete unless Capped).
type TraceSet struct {
	Pkg      string   `json:"pkg"`
	Scenario string   `json:"scenario"`
	Fail     []string `json:"fail,omitempty"`
	Cancel   bool     `json:"cancel,omitempty"`
	Traces   []Trace  `json:"traces"`
	Execs    int      `json:"execs"`
	Capped   bool     `json:"capped,omitempty"`
	Race     bool     `json:"race,omitempty"`
	POR      bool     `json:"por,omitempty"` // one representative interleaving per Mazurkiewicz trace
}
