#!/bin/bash
# usage: confirm_seed.sh <ID> [<name>] — confirm an agent-delivered seeded change in its scratch worktree ($WT, default /tmp/wt-<ID>;
# deliverables in $OUT, default /tmp/out-<ID>): patch applies to a clean checkout, suite passes with it, demo fails with it and passes
# without. Then file it under /verif/seeded/<name>.
id=$1; name=${2:-$1}; wt=${WT:-/tmp/wt-$id}; out=${OUT:-/tmp/out-$id}
set -u
cd $wt || exit 2
git checkout -q -- . ; git clean -fdq
git apply --check $out/patch.diff || { echo "PATCH DOES NOT APPLY"; exit 1; }
if git apply --numstat $out/patch.diff | awk '{print $3}' | grep -E '(_test\.go$|testdata/)' ; then echo "PATCH TOUCHES TESTS"; exit 1; fi
echo "--- demo WITHOUT change"; (bash $out/demo/run.sh $wt > /tmp/demo-$name-clean.log 2>&1); rc0=$?; echo "exit=$rc0"
git checkout -q -- . ; git clean -fdq
git apply $out/patch.diff
echo "--- suite WITH change"; (go build ./... && go test -vet=off -count=1 ./...) > /tmp/suite-$name.log 2>&1; rcs=$?; tail -8 /tmp/suite-$name.log; echo "suite exit=$rcs"
git checkout -q go.work.sum 2>/dev/null
echo "--- demo WITH change"; (bash $out/demo/run.sh $wt > /tmp/demo-$name-mut.log 2>&1); rc1=$?; echo "exit=$rc1"; tail -5 /tmp/demo-$name-mut.log
git checkout -q go.work.sum 2>/dev/null
if [ $rc0 -eq 0 ] && [ $rcs -eq 0 ] && [ $rc1 -ne 0 ]; then
  mkdir -p /verif/seeded/$name; cp $out/patch.diff /verif/seeded/$name/; rm -rf /verif/seeded/$name/demo; cp -r $out/demo /verif/seeded/$name/demo; cp $out/README.md /verif/seeded/$name/AGENT_README.md 2>/dev/null
  find /verif/seeded/$name/demo -type f \( -name kessoku -o -name '*.test' -o -size +2M \) -delete
  echo "CONFIRMED $name"
else
  echo "NOT CONFIRMED ($rc0/$rcs/$rc1)"
fi
