//go:build verif

package kessoku

// Verification-only accessors for VarPool (added by build overlay; never part of a normal build).

// VerifClone returns an independent copy of the pool.
func (p *VarPool) VerifClone() *VarPool {
	c := &VarPool{vars: make(map[string]int, len(p.vars))}
	for k, v := range p.vars {
		c.vars[k] = v
	}
	return c
}

// VerifSnapshot returns the allocator state.
func (p *VarPool) VerifSnapshot() map[string]int {
	out := make(map[string]int, len(p.vars))
	for k, v := range p.vars {
		out[k] = v
	}
	return out
}

// VerifReserved lists the identifiers the pool treats as reserved from the start.
func VerifReserved() (predeclared, keywords []string) {
	return goPredeclaredIdentifiers[:], goReservedKeywords[:]
}
