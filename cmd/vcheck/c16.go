package main

import (
	"bytes"
	"crypto/sha256"
	"encoding/hex"
	"fmt"
	"os"
	"os/exec"
	"path/filepath"
	"regexp"
	"sort"
	"strings"
	"syscall"

	"verif/internal/pipe"
)

type docAgent struct {
	Display string
	Cmd     string
	Project string
	User    string
}

// documentedAgents parses README.md: the "Supported agents" line and the default path table.
func documentedAgents() ([]docAgent, error) {
	b, err := os.ReadFile(filepath.Join(pipe.RepoDir(), "README.md"))
	if err != nil {
		return nil, err
	}
	text := string(b)
	cmds := map[string]string{}
	if m := regexp.MustCompile(`(?m)^\*\*Supported agents:\*\*(.*)$`).FindStringSubmatch(text); m != nil {
		for _, mm := range regexp.MustCompile("([A-Za-z][A-Za-z ]*?)\\(`([a-z\\-]+)`\\)").FindAllStringSubmatch(m[1], -1) {
			cmds[strings.TrimSpace(mm[1])] = mm[2]
		}
	}
	var out []docAgent
	for _, m := range regexp.MustCompile("(?m)^- \\*\\*([^:*]+):\\*\\* `([^`]+)` \\(project\\) or `~/([^`]+)` \\(user\\)").FindAllStringSubmatch(text, -1) {
		name := strings.TrimSpace(m[1])
		cmd, ok := cmds[name]
		if !ok {
			return nil, fmt.Errorf("README path table names %q which the supported-agents line does not", name)
		}
		out = append(out, docAgent{Display: name, Cmd: cmd, Project: strings.TrimSuffix(m[2], "/"), User: strings.TrimSuffix(m[3], "/")})
	}
	if len(out) == 0 || len(out) != len(cmds) {
		return nil, fmt.Errorf("README: %d agents in the supported list, %d in the path table", len(cmds), len(out))
	}
	return out, nil
}

type c16Cmd struct {
	Agent docAgent
	Mode  string // default | user | path-rel | path-abs | path-user
}

func (c c16Cmd) String() string { return c.Agent.Cmd + ":" + c.Mode }

func (c c16Cmd) args(root string) []string {
	switch c.Mode {
	case "user":
		return []string{"llm-setup", c.Agent.Cmd, "--user"}
	case "path-rel":
		return []string{"llm-setup", c.Agent.Cmd, "--path", "./custom/rel"}
	case "path-abs":
		return []string{"llm-setup", c.Agent.Cmd, "--path", filepath.Join(root, "other", "abs")}
	case "path-user":
		return []string{"llm-setup", c.Agent.Cmd, "--path", "custom/both", "--user"}
	}
	return []string{"llm-setup", c.Agent.Cmd}
}

// base is the documented rule: custom path > --user > project.
func (c c16Cmd) base() string {
	switch c.Mode {
	case "user":
		return filepath.Join("home", c.Agent.User)
	case "path-rel":
		return "proj/custom/rel"
	case "path-abs":
		return "other/abs"
	case "path-user":
		return "proj/custom/both"
	}
	return filepath.Join("proj", c.Agent.Project)
}

type fsState map[string]fileState

func (s fsState) hash() string {
	var ks []string
	for k := range s {
		ks = append(ks, k)
	}
	sort.Strings(ks)
	h := sha256.New()
	for _, k := range ks {
		fmt.Fprintf(h, "%s|%o|%s|%v\n", k, s[k].Mode, s[k].Sum, s[k].Dir)
	}
	return hex.EncodeToString(h.Sum(nil))[:16]
}

// model computes the documented effect of a command on a filesystem state.
// c16LinkTarget maps a base that was set up as a symbolic link to the directory (relative to the root) it points at.
var c16LinkTarget = map[string]string{}

func model(prev fsState, c c16Cmd, emb map[string]string) (next fsState, fails bool) {
	base := c.base()
	if st, ok := prev[base]; ok && !st.Dir {
		if tgt, isLink := c16LinkTarget[base]; isLink && st.Mode&os.ModeSymlink != 0 {
			// the base is a symbolic link to an existing directory (a dotfiles layout): the tree is installed
			// through the link, i.e. it appears under the link's target; the link itself stays
			base = tgt
		} else {
			return prev, true // base is a file: refuse, change nothing
		}
	}
	// a parent of base that is a file also makes directory creation impossible
	for p := filepath.Dir(base); p != "." && p != "/"; p = filepath.Dir(p) {
		if st, ok := prev[p]; ok && !st.Dir {
			return prev, true
		}
	}
	next = fsState{}
	for k, v := range prev {
		next[k] = v
	}
	mk := func(dir string) {
		var parts []string
		for p := dir; p != "." && p != "/"; p = filepath.Dir(p) {
			parts = append(parts, p)
		}
		for i := len(parts) - 1; i >= 0; i-- {
			if _, ok := next[parts[i]]; !ok {
				next[parts[i]] = fileState{Mode: 0o755, Dir: true}
			}
		}
	}
	skill := filepath.Join(base, "kessoku-di")
	for rel, sum := range emb {
		p := filepath.Join(skill, rel)
		mk(filepath.Dir(p))
		next[p] = fileState{Mode: 0o644, Sum: sum}
	}
	return next, false
}

func diffStates(want, got fsState) string {
	var d []string
	for k, w := range want {
		g, ok := got[k]
		switch {
		case !ok:
			d = append(d, "missing "+k)
		case g != w:
			d = append(d, fmt.Sprintf("differs %s (want mode %o sum %.8s, got mode %o sum %.8s)", k, w.Mode, w.Sum, g.Mode, g.Sum))
		}
	}
	for k := range got {
		if _, ok := want[k]; !ok {
			d = append(d, "unexpected "+k)
		}
	}
	sort.Strings(d)
	if len(d) > 6 {
		d = append(d[:6], fmt.Sprintf("… %d more", len(d)-6))
	}
	return strings.Join(d, "; ")
}

func copyTree(src, dst string) error {
	cmd := exec.Command("cp", "-a", src, dst)
	out, err := cmd.CombinedOutput()
	if err != nil {
		return fmt.Errorf("%v: %s", err, out)
	}
	return nil
}

func runC16(args []string) {
	tier := parseTier(args)
	rc := newRunCtx("C16", tier)
	rc.Level = "model_checking"
	syscall.Umask(0o022)
	env := pipe.Setup()
	agents, err := documentedAgents()
	if err != nil {
		fmt.Println("SETUP-FAILED: cannot read the documented agent table from README.md:", err)
		os.Exit(2)
	}
	emb := embeddedTree()
	// the CLI offers exactly the documented subcommands
	helpOut, _ := exec.Command(env.Kessoku, "llm-setup", "--help").CombinedOutput()
	offered := map[string]bool{}
	for _, m := range regexp.MustCompile(`(?m)^\s+llm-setup ([a-z][a-z0-9\-]*)\s`).FindAllStringSubmatch(string(helpOut), -1) {
		offered[m[1]] = true
	}
	documented := map[string]bool{}
	pairSeen := map[string]string{}
	for _, a := range agents {
		documented[a.Cmd] = true
		k := a.Project + "|" + a.User
		if other, dup := pairSeen[k]; dup {
			rc.Notes = append(rc.Notes, "README documents identical paths for "+other+" and "+a.Cmd)
		}
		pairSeen[k] = a.Cmd
	}
	for c := range offered {
		if !documented[c] {
			rc.Add(Finding{Kind: "undocumented-subcommand", Detail: "the CLI offers llm-setup " + c + ", which README does not document", Witness: "kessoku llm-setup --help"})
		}
	}
	for c := range documented {
		if !offered[c] {
			rc.Add(Finding{Kind: "missing-subcommand", Detail: "README documents llm-setup " + c + ", which the CLI does not offer", Witness: "kessoku llm-setup --help"})
		}
	}

	var cmds []c16Cmd
	for _, a := range agents {
		for _, m := range []string{"default", "user", "path-rel", "path-abs", "path-user"} {
			cmds = append(cmds, c16Cmd{a, m})
		}
	}
	work := filepath.Join(env.Work, fmt.Sprintf("c16-%d", os.Getpid()))
	_ = os.RemoveAll(work)
	defer os.RemoveAll(work)
	_ = os.MkdirAll(work, 0o755)

	// initial states
	type node struct {
		dir   string
		state fsState
		hist  []string
		depth int
	}
	allBases := map[string]bool{}
	for _, c := range cmds {
		allBases[c.base()] = true
	}
	mkInit := func(name string) *node {
		dir := filepath.Join(work, "init-"+name)
		for _, d := range []string{"home", "proj", "other"} {
			_ = os.MkdirAll(filepath.Join(dir, d), 0o755)
		}
		_ = os.WriteFile(filepath.Join(dir, "proj", "main.go"), []byte("package main\n"), 0o644)
		_ = os.WriteFile(filepath.Join(dir, "home", ".profile"), []byte("export X=1\n"), 0o600)
		for b := range allBases {
			switch name {
			case "older-install":
				for rel := range emb {
					p := filepath.Join(dir, b, "kessoku-di", rel)
					_ = os.MkdirAll(filepath.Dir(p), 0o755)
					_ = os.WriteFile(p, []byte("older "+rel), 0o600)
				}
				_ = os.WriteFile(filepath.Join(dir, b, "kessoku-di", "REMOVED_IN_NEW_RELEASE.md"), []byte("old"), 0o644)
			case "same-content-other-modes", "same-content-symlinks":
				modes := []os.FileMode{0o600, 0o664, 0o444, 0o640}
				var rels []string
				for rel := range emb {
					rels = append(rels, rel)
				}
				sort.Strings(rels)
				src := filepath.Join(pipe.RepoDir(), "internal", "llmsetup", "skills", "kessoku-di")
				for i, rel := range rels {
					p := filepath.Join(dir, b, "kessoku-di", rel)
					_ = os.MkdirAll(filepath.Dir(p), 0o755)
					content, _ := os.ReadFile(filepath.Join(src, rel))
					if name == "same-content-symlinks" {
						// links to identical copies kept outside every base; the copies must stay untouched
						store := filepath.Join(dir, "other", "store", rel)
						_ = os.MkdirAll(filepath.Dir(store), 0o755)
						_ = os.WriteFile(store, content, 0o600)
						rp, _ := filepath.Rel(filepath.Dir(p), store)
						_ = os.Symlink(rp, p)
						continue
					}
					_ = os.WriteFile(p, content, 0o600)
					_ = os.Chmod(p, modes[i%len(modes)])
				}
			case "partial-install":
				// some files of the current release present and pristine, one truncated, the rest missing
				var rels []string
				for rel := range emb {
					rels = append(rels, rel)
				}
				sort.Strings(rels)
				src := filepath.Join(pipe.RepoDir(), "internal", "llmsetup", "skills", "kessoku-di")
				for i, rel := range rels {
					if i%3 == 2 {
						continue
					}
					p := filepath.Join(dir, b, "kessoku-di", rel)
					_ = os.MkdirAll(filepath.Dir(p), 0o755)
					content, _ := os.ReadFile(filepath.Join(src, rel))
					if i%3 == 1 {
						content = content[:len(content)/2]
					}
					_ = os.WriteFile(p, content, 0o644)
				}
			case "base-is-symlink":
				// every base path is a symbolic link to an existing directory kept elsewhere: relative link
				// targets (resolved against the LINK's directory, not the working directory)
				tgt := filepath.Join("other", "linked", strings.ReplaceAll(b, "/", "_"))
				_ = os.MkdirAll(filepath.Join(dir, tgt), 0o755)
				_ = os.MkdirAll(filepath.Dir(filepath.Join(dir, b)), 0o755)
				// (relative targets only: the state directories are copied for every transition, and an absolute target
				// would make all copies share one directory)
				link, _ := filepath.Rel(filepath.Dir(filepath.Join(dir, b)), filepath.Join(dir, tgt))
				_ = os.Symlink(link, filepath.Join(dir, b))
				c16LinkTarget[b] = tgt
			case "unrelated-files":
				_ = os.MkdirAll(filepath.Join(dir, b, "kessoku-di", "notes"), 0o700)
				_ = os.WriteFile(filepath.Join(dir, b, "other-skill.md"), []byte("someone else's skill"), 0o640)
				_ = os.WriteFile(filepath.Join(dir, b, "kessoku-di", "notes", "mine.txt"), []byte("user notes"), 0o600)
			case "base-is-a-file":
				_ = os.MkdirAll(filepath.Dir(filepath.Join(dir, b)), 0o755)
				_ = os.WriteFile(filepath.Join(dir, b), []byte("not a directory"), 0o644)
			}
		}
		return &node{dir: dir, state: fsState(snapshot(dir)), hist: []string{"init:" + name}}
	}
	maxDepth := 2
	if rc.Thorough() {
		maxDepth = 3
	}
	seen := map[string]bool{}
	var frontier []*node
	for _, n := range []string{"absent", "older-install", "unrelated-files", "base-is-a-file", "same-content-other-modes", "same-content-symlinks", "partial-install", "base-is-symlink"} {
		nd := mkInit(n)
		seen[nd.state.hash()] = true
		frontier = append(frontier, nd)
	}
	states, transitions := len(frontier), 0
	var samples []any
	nodeID := 0
	for depth := 0; depth < maxDepth && len(frontier) > 0; depth++ {
		type succ struct {
			parent *node
			cmd    c16Cmd
			dir    string
			state  fsState
			exit   int
			stdout string
			stderr string
		}
		var jobs []*succ
		for _, nd := range frontier {
			for _, c := range cmds {
				nodeID++
				jobs = append(jobs, &succ{parent: nd, cmd: c, dir: filepath.Join(work, fmt.Sprintf("n%06d", nodeID))})
			}
		}
		pipe.Parallel(len(jobs), 16, func(i int) {
			j := jobs[i]
			if err := copyTree(j.parent.dir, j.dir); err != nil {
				j.exit = -99
				j.stderr = err.Error()
				return
			}
			cmd := exec.Command(env.Kessoku, j.cmd.args(j.dir)...)
			cmd.Dir = filepath.Join(j.dir, "proj")
			cmd.Env = []string{"HOME=" + filepath.Join(j.dir, "home"), "PATH=/usr/bin:/bin"}
			var so, se bytes.Buffer
			cmd.Stdout, cmd.Stderr = &so, &se
			if err := cmd.Run(); err != nil {
				if ee, ok := err.(*exec.ExitError); ok {
					j.exit = ee.ExitCode()
				} else {
					j.exit = -1
				}
			}
			j.stdout, j.stderr = so.String(), se.String()
			j.state = fsState(snapshot(j.dir))
		})
		var next []*node
		for _, j := range jobs {
			transitions++
			hist := append(append([]string(nil), j.parent.hist...), j.cmd.String())
			witness := strings.Join(hist, " ; ")
			if j.exit == -99 {
				fmt.Println("EXPLORER-FAILED: cannot copy state directory:", j.stderr)
				os.Exit(2)
			}
			want, fails := model(j.parent.state, j.cmd, emb)
			rep := map[string]any{"history": hist, "exit": j.exit, "stdout": j.stdout, "stderr": j.stderr}
			pre := "mode=" + j.cmd.Mode + ",init=" + j.parent.hist[0]
			switch {
			case fails && j.exit == 0:
				rc.Add(Finding{Kind: "installed-over-a-file", Pre: pre, Detail: "the base path is a file, but the installer exited 0", Witness: witness, Replay: rep})
			case !fails && j.exit != 0:
				rc.Add(Finding{Kind: "install-failed", Pre: pre, Detail: "the installer exited " + fmt.Sprint(j.exit) + ": " + lastLine(j.stderr), Witness: witness, Replay: rep})
			}
			if d := diffStates(want, j.state); d != "" {
				kind := "wrong-tree"
				if fails {
					kind = "changed-on-refusal"
				}
				rc.Add(Finding{Kind: kind, Site: "agent=" + j.cmd.Agent.Cmd, Pre: pre, Detail: "filesystem after the command differs from the documented effect (base " + j.cmd.base() + "): " + d, Witness: witness, Replay: rep})
			}
			if !fails && j.exit == 0 {
				wantLine := "Skills installed to: " + filepath.Join(j.dir, j.cmd.base(), "kessoku-di")
				if !strings.Contains(j.stdout, wantLine) {
					rc.Add(Finding{Kind: "wrong-reported-path", Pre: pre, Detail: "stdout does not report the documented target: " + strings.TrimSpace(j.stdout), Witness: witness, Replay: rep})
				}
			}
			h := j.state.hash()
			if len(samples) < 4 && transitions%131 == int(rc.Seed%131) {
				samples = append(samples, map[string]any{"history": hist, "args": j.cmd.args("<root>"), "exit": j.exit, "state_hash": h, "paths_in_state": len(j.state)})
			}
			if !seen[h] {
				seen[h] = true
				states++
				next = append(next, &node{dir: j.dir, state: j.state, hist: hist, depth: depth + 1})
			} else {
				_ = os.RemoveAll(j.dir)
			}
		}
		frontier = next
	}
	if len(samples) == 0 {
		samples = append(samples, map[string]any{"note": "no sample selected"})
	}
	rc.Coverage = map[string]any{
		"states":                        states,
		"transitions":                   transitions,
		"traces_validated_against_impl": transitions,
		"samples":                       samples,
		"evaluations":                   transitions,
		"distinct_nontrivial":           states,
		"rule":                          fmt.Sprintf("breadth-first search over command sequences (depth <= %d) of the real CLI in a private root {home, proj, other}: command = each of the %d documented agents x {default, --user, --path relative, --path absolute, --path with --user}; initial states = {absent, older install with other bytes/modes and an extra file, unrelated files in every base and skill directory, every base path is a file, current content with other permissions (0600/0664/0444/0640), current content behind symbolic links to copies kept elsewhere, partial install (pristine / truncated / missing files), every base a symbolic link (relative target) to an existing directory}; state = (path, mode, sha256) snapshot of the whole root, deduplicated by hash; after EVERY transition the snapshot must equal model(previous snapshot, command), the model being the README table (base = custom > user > project; target = base/kessoku-di; complete embedded tree, 0644; only missing parents created; refusal changes nothing). Also: `llm-setup --help` offers exactly the documented subcommands", maxDepth, len(agents)),
		"exhaustive":                    true,
		"documented_agents":             len(agents),
		"commands":                      len(cmds),
		"tree_hash":                     env.Hash,
	}
	rc.Assume = []string{"the documented table is read from README.md of the working tree at run time", "umask 022; directories created by the installer are expected with mode 0755", "every transition is an execution of the real CLI: traces_validated_against_impl equals transitions"}
	rc.Finish()
}
