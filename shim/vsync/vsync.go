// Package vsync provides drop-in replacements for the sync primitives used by
// golang.org/x/sync/errgroup whose blocking and visible operations are scheduling points of
// verif/sched. Outside a controlled world they delegate to the real sync types.
package vsync

import (
	"sync"

	"verif/sched"
)

type WaitGroup struct {
	real sync.WaitGroup
	_    [1]byte // keep distinct addresses for distinct zero-size neighbours
}

func (g *WaitGroup) Add(n int) {
	if sched.Cur() == nil {
		g.real.Add(n)
		return
	}
	sched.WGAdd(g, n)
}

func (g *WaitGroup) Done() {
	if sched.Cur() == nil {
		g.real.Done()
		return
	}
	sched.WGAdd(g, -1)
}

func (g *WaitGroup) Wait() {
	if sched.Cur() == nil {
		g.real.Wait()
		return
	}
	sched.WGWait(g)
}

type Once struct {
	real sync.Once
	_    [1]byte
}

func (o *Once) Do(f func()) {
	if sched.Cur() == nil {
		o.real.Do(f)
		return
	}
	if sched.OnceBegin(o) {
		defer sched.OnceEnd(o)
		f()
	}
}

type Mutex struct {
	real sync.Mutex
	_    [1]byte
}

func (m *Mutex) Lock() {
	if sched.Cur() == nil {
		m.real.Lock()
		return
	}
	sched.Lock(m)
}

func (m *Mutex) Unlock() {
	if sched.Cur() == nil {
		m.real.Unlock()
		return
	}
	sched.Unlock(m)
}
