package sched_test

import (
	"fmt"
	"sort"
	"strings"
	"testing"

	"verif/sched"
	"verif/shim/vctx"
	"verif/shim/vsync"
)

func binom(n, k int) int {
	r := 1
	for i := 1; i <= k; i++ {
		r = r * (n - k + i) / i
	}
	return r
}

type result struct {
	execs, states int
	outcomes      map[string]int
	viol          map[string]int
}

func explore(t *testing.T, noPrune bool, setup func(w *sched.World, out *string) func()) result {
	res := result{outcomes: map[string]int{}, viol: map[string]int{}}
	var out *string
	e := &sched.Explorer{NoPrune: noPrune, MaxExecs: 2000000}
	e.Setup = func(w *sched.World) func() {
		out = new(string)
		return setup(w, out)
	}
	e.AtState = func(w *sched.World, alts []sched.Alt) {
		if len(alts) == 0 {
			if live := w.Live(); len(live) > 0 {
				var d []string
				for _, th := range live {
					d = append(d, th.Name+":"+w.DescribePending(th))
				}
				w.Violate("deadlock", strings.Join(d, " "))
			}
			res.outcomes[*out]++
		}
	}
	e.AfterRun = func(w *sched.World, choices []int, cut bool) {
		for _, v := range w.Viol {
			res.viol[v.Kind]++
		}
	}
	e.Explore()
	if e.Capped {
		t.Fatalf("capped")
	}
	res.execs, res.states = e.Execs, e.States
	return res
}

func TestIndependentThreads(t *testing.T) {
	for k := 1; k <= 4; k++ {
		setup := func(w *sched.World, out *string) func() {
			return func() {
				for i := 0; i < 2; i++ {
					sched.Go(func() {
						for j := 0; j < k; j++ {
							sched.Yield("step")
						}
					})
				}
			}
		}
		np := explore(t, true, setup)
		want := binom(2*(k+1), k+1)
		if np.execs != want {
			t.Errorf("k=%d unpruned executions = %d, want C(%d,%d) = %d", k, np.execs, 2*(k+1), k+1, want)
		}
		p := explore(t, false, setup)
		// states: before main starts, plus the (k+2)x(k+2) grid of the two threads' progress
		wantStates := 1 + (k+2)*(k+2)
		if p.states != wantStates {
			t.Errorf("k=%d pruned states = %d, want %d", k, p.states, wantStates)
		}
		if p.execs >= np.execs && k > 1 {
			t.Errorf("k=%d pruning did not reduce executions: %d vs %d", k, p.execs, np.execs)
		}
	}
}

func TestLostUpdateRace(t *testing.T) {
	setup := func(w *sched.World, out *string) func() {
		x := 0
		return func() {
			sched.Init("x")
			var wg vsync.WaitGroup
			for i := 0; i < 2; i++ {
				wg.Add(1)
				sched.Go(func() {
					defer wg.Done()
					sched.Access("load", []string{"x"}, nil)
					tmp := x
					sched.Access("store", nil, []string{"x"})
					x = tmp + 1
					sched.Wrote("x")
				})
			}
			wg.Wait()
			*out = fmt.Sprint(x)
		}
	}
	for _, np := range []bool{true, false} {
		r := explore(t, np, setup)
		if r.viol["race"] == 0 {
			t.Errorf("noPrune=%v: lost-update race not reported", np)
		}
		if r.outcomes["1"] == 0 || r.outcomes["2"] == 0 {
			t.Errorf("noPrune=%v: outcomes %v, want both 1 and 2", np, r.outcomes)
		}
		if r.viol["deadlock"] != 0 {
			t.Errorf("unexpected deadlock")
		}
	}
}

func TestNoRaceWhenOrderedByClose(t *testing.T) {
	setup := func(w *sched.World, out *string) func() {
		x := 0
		return func() {
			ch := sched.MakeChan[struct{}](0, "ch")
			sched.Go(func() {
				sched.Access("store", nil, []string{"x"})
				x = 7
				sched.Wrote("x")
				sched.Close(ch)
			})
			sched.Recv(ch)
			sched.Access("load", []string{"x"}, nil)
			*out = fmt.Sprint(x)
		}
	}
	r := explore(t, false, setup)
	if len(r.viol) != 0 {
		t.Errorf("violations on a correctly synchronised program: %v", r.viol)
	}
	if len(r.outcomes) != 1 || r.outcomes["7"] == 0 {
		t.Errorf("outcomes %v", r.outcomes)
	}
}

func TestReadBeforeWriteAndRaceWhenCloseFirst(t *testing.T) {
	setup := func(w *sched.World, out *string) func() {
		x := 0
		return func() {
			ch := sched.MakeChan[struct{}](0, "ch")
			sched.Go(func() {
				sched.Close(ch) // bug: signal before the write
				sched.Access("store", nil, []string{"x"})
				x = 7
				sched.Wrote("x")
			})
			sched.Recv(ch)
			sched.Access("load", []string{"x"}, nil)
			*out = fmt.Sprint(x)
			sched.MainReturn(*out) // observations must enter the thread history, or pruning merges them
		}
	}
	r := explore(t, false, setup)
	if r.viol["race"] == 0 || r.viol["read-before-write"] == 0 {
		t.Errorf("want race and read-before-write, got %v", r.viol)
	}
	if r.outcomes["0"] == 0 || r.outcomes["7"] == 0 {
		t.Errorf("outcomes %v", r.outcomes)
	}
}

func TestLockOrderDeadlock(t *testing.T) {
	setup := func(w *sched.World, out *string) func() {
		return func() {
			var a, b vsync.Mutex
			var wg vsync.WaitGroup
			wg.Add(2)
			sched.Go(func() { defer wg.Done(); a.Lock(); b.Lock(); b.Unlock(); a.Unlock() })
			sched.Go(func() { defer wg.Done(); b.Lock(); a.Lock(); a.Unlock(); b.Unlock() })
			wg.Wait()
			*out = "done"
		}
	}
	r := explore(t, false, setup)
	if r.viol["deadlock"] == 0 {
		t.Errorf("AB/BA deadlock not found: %v", r.viol)
	}
	if r.outcomes["done"] == 0 {
		t.Errorf("successful outcome missing: %v", r.outcomes)
	}
}

func TestDoubleClose(t *testing.T) {
	setup := func(w *sched.World, out *string) func() {
		return func() {
			ch := sched.MakeChan[struct{}](0, "ch")
			sched.Go(func() { sched.Close(ch) })
			sched.Go(func() { sched.Close(ch) })
		}
	}
	r := explore(t, false, setup)
	if r.viol["double-close"] == 0 {
		t.Errorf("double close not found: %v", r.viol)
	}
}

func TestSelectBothReady(t *testing.T) {
	setup := func(w *sched.World, out *string) func() {
		return func() {
			a := sched.MakeChan[struct{}](0, "a")
			b := sched.MakeChan[struct{}](0, "b")
			sched.Go(func() { sched.Close(a) })
			sched.Go(func() { sched.Close(b) })
			switch sched.Select(false, a, b) {
			case 0:
				*out = "a"
			case 1:
				*out = "b"
			}
		}
	}
	r := explore(t, false, setup)
	if r.outcomes["a"] == 0 || r.outcomes["b"] == 0 || len(r.viol) != 0 {
		t.Errorf("outcomes %v viol %v", r.outcomes, r.viol)
	}
}

func TestContextCancelAllPositions(t *testing.T) {
	// main does 3 steps then checks ctx; an environment thread may cancel at any point before main returns.
	setup := func(w *sched.World, out *string) func() {
		return func() {
			ctx := vctx.New()
			sched.GoEnv("canceller", func() {
				if sched.EnvCancelPoint() {
					ctx.Cancel(nil, "caller")
				}
			})
			seen := []string{}
			for i := 0; i < 3; i++ {
				sched.Yield("step")
				if ctx.Err() != nil {
					seen = append(seen, fmt.Sprint(i))
					break
				}
			}
			*out = strings.Join(seen, ",")
			sched.MainReturn(*out)
		}
	}
	r := explore(t, false, setup)
	var ks []string
	for k := range r.outcomes {
		ks = append(ks, k)
	}
	sort.Strings(ks)
	if strings.Join(ks, "|") != "|0|1|2" {
		t.Errorf("cancel positions observed: %q", ks)
	}
	if len(r.viol) != 0 {
		t.Errorf("viol %v", r.viol)
	}
}

func TestReplayDeterminism(t *testing.T) {
	setup := func(w *sched.World) func() {
		return func() {
			a := sched.MakeChan[struct{}](0, "a")
			sched.Go(func() { sched.Yield("x"); sched.Close(a) })
			sched.Go(func() { sched.Yield("y") })
			sched.Recv(a)
		}
	}
	_, l1 := sched.Replay(setup, []int{0, 1, 1, 0, 1})
	_, l2 := sched.Replay(setup, []int{0, 1, 1, 0, 1})
	if l1 != l2 || l1 == "" {
		t.Errorf("replay not deterministic:\n%s\n---\n%s", l1, l2)
	}
}

// A value read from a shared variable and only passed on later: the state in which the reader has already read
// "old" and the one in which it has read "new" have the same thread positions; the key must tell them apart
// (reads-from is part of the reader's history).
func TestPruningKeepsReadsFrom(t *testing.T) {
	setup := func(w *sched.World, out *string) func() {
		x := "old"
		return func() {
			sched.Init("x")
			sched.Go(func() {
				sched.Access("store", nil, []string{"x"})
				x = "new"
				sched.Wrote("x")
				sched.Yield("after-store")
			})
			sched.Access("load", []string{"x"}, nil)
			v := x
			sched.Yield("use") // the value is only announced later
			sched.Yield("use2")
			*out = v
			sched.MainReturn(v)
		}
	}
	np := explore(t, true, setup)
	p := explore(t, false, setup)
	d := exploreDPOR(t, setup)
	for name, r := range map[string]result{"unpruned": np, "pruned": p, "dpor": d} {
		if r.outcomes["old"] == 0 || r.outcomes["new"] == 0 {
			t.Errorf("%s: outcomes %v, want both old and new", name, r.outcomes)
		}
	}
}
