package explore

import (
	"context"
	"errors"
	"fmt"
	"sort"
	"strings"
	"time"

	"verif/rt"
	"verif/sched"
	"verif/shim/vctx"
)

// Scenario is the environment of one exploration.
type Scenario struct {
	Name   string
	Fail   []string // provider ids that return their sentinel error
	Cancel bool     // an environment thread may cancel the caller's context at any point before return
}

type execState struct {
	entered  map[string]int
	exited   map[string]bool
	inside   map[string]bool
	failedEx map[string]bool // failing providers that have returned their error
	cancel   bool
}

type runner struct {
	c      *rt.Case
	info   *CaseInfo
	prov   map[string]*ProvInfo
	sc     Scenario
	fail   map[string]bool
	errs   map[string]error
	res    *Result
	obs    map[string]*Obs
	outs   map[string]*Outcome
	cur    *execState
	curW   *sched.World
	choice func() []int
	// C05 bookkeeping
	inputFree  []string
	asyncs     []string
	notForced  map[string]bool
	enteredAny map[string]bool
}

func (r *runner) Call(pid string, args []string) (string, error) {
	sched.Yield("enter:"+pid, args...)
	sched.Yield("exit:" + pid)
	if r.fail[pid] {
		return "", r.errs[pid]
	}
	return rt.Term(pid, args), nil
}

func (r *runner) note(kind, detail, site, blocked string) {
	key := kind + "|" + site + "|" + detail + "|" + blocked
	if o, ok := r.obs[key]; ok {
		o.Count++
		return
	}
	r.obs[key] = &Obs{Kind: kind, Detail: detail, Site: site, Blocked: blocked, Count: 1, Schedule: append([]int(nil), r.choice()...)}
}

func eq(a, b []string) bool {
	if len(a) != len(b) {
		return false
	}
	for i := range a {
		if a[i] != b[i] {
			return false
		}
	}
	return true
}

func (r *runner) onEvent(w *sched.World, t *sched.Thread, ev *sched.Event) {
	st := r.cur
	switch ev.Kind {
	case sched.OpEnvCancel:
		st.cancel = true
	case sched.OpYield:
		switch {
		case strings.HasPrefix(ev.Label, "enter:"):
			pid := ev.Label[6:]
			st.entered[pid]++
			st.inside[pid] = true
			r.enteredAny[pid] = true
			p := r.prov[pid]
			if p == nil || !p.Needed {
				r.note("unexpected-call", "provider "+pid+" is not needed for the requested type but was invoked", "", "")
				return
			}
			if st.entered[pid] > 1 {
				r.note("duplicate-call", "provider "+pid+" invoked more than once", "", "")
			}
			for _, d := range p.Deps {
				if !st.exited[d] {
					r.note("dep-not-exited", fmt.Sprintf("provider %s entered before its producer %s returned", pid, d), "", "")
				}
			}
			if !eq(ev.Args, p.ArgTerms) {
				r.note("wrong-args", fmt.Sprintf("provider %s received (%s), the declared graph supplies (%s)", pid, strings.Join(ev.Args, ","), strings.Join(p.ArgTerms, ",")), "", "")
			}
			for _, d := range p.TransDeps {
				if r.fail[d] && st.entered[d] > 0 {
					r.note("entered-after-failure", fmt.Sprintf("provider %s invoked although %s, on which it depends, failed", pid, d), "", "")
				}
			}
			// C05: overlap of input-free Async providers; forced happens-before
			if p.InputFree && p.Async {
				for _, q := range r.asyncs {
					if q != pid && !st.exited[q] {
						r.notForced[pid+"<"+q] = true
					}
				}
			}
			n := 0
			for _, q := range r.inputFree {
				if st.inside[q] {
					n++
				}
			}
			if n > r.res.MaxOverlap {
				r.res.MaxOverlap = n
			}
		case strings.HasPrefix(ev.Label, "exit:"):
			pid := ev.Label[5:]
			st.exited[pid] = true
			delete(st.inside, pid)
			if r.fail[pid] {
				st.failedEx[pid] = true
			}
		}
	case sched.OpMainReturn:
		r.atReturn(w, ev.Label)
	}
}

func (r *runner) atReturn(w *sched.World, outcome string) {
	st := r.cur
	parts := strings.SplitN(outcome, "\x1f", 2)
	term, errS := parts[0], parts[1]
	site := w.MainSite
	k := outcome + "\x1f" + site
	if o, ok := r.outs[k]; ok {
		o.Count++
	} else {
		r.outs[k] = &Outcome{Term: term, Err: errS, Site: site, Count: 1}
	}
	anyFailed := len(st.failedEx) > 0
	switch {
	case anyFailed:
		if errS == "" {
			r.note("error-swallowed", fmt.Sprintf("provider(s) %s failed but the injector returned %q without error", keys(st.failedEx), term), site, "")
		} else {
			ok := false
			for p := range st.failedEx {
				if errS == "fail:"+p {
					ok = true
				}
			}
			if !ok && !(st.cancel && errS == context.Canceled.Error()) {
				r.note("substitute-error", fmt.Sprintf("provider(s) %s failed but the injector returned error %q", keys(st.failedEx), errS), site, "")
			}
		}
	case errS != "":
		if !st.cancel {
			r.note("unexpected-error", fmt.Sprintf("no provider failed and the caller did not cancel, but the injector returned error %q", errS), site, "")
		}
	default:
		if term != r.info.Term {
			kind := "wrong-result"
			if st.cancel {
				kind = "partial-result"
			}
			r.note(kind, fmt.Sprintf("injector returned %q without error; sequential evaluation gives %q", term, r.info.Term), site, "")
		}
		for i := range r.info.Provs {
			p := &r.info.Provs[i]
			if p.Needed && st.entered[p.ID] == 0 && !st.cancel {
				r.note("missing-call", "needed provider "+p.ID+" was never invoked although the injector returned successfully", site, "")
			}
		}
	}
	if !anyFailed && !st.cancel {
		// fault-free return: every goroutine must already have finished
		for _, t := range w.Live() {
			if t.ID != 0 {
				r.note("unjoined-goroutine", fmt.Sprintf("goroutine %s still running (%s) when the injector returned successfully", t.Name, w.DescribePending(t)), site, "")
			}
		}
	}
}

func keys(m map[string]bool) string {
	var ks []string
	for k := range m {
		ks = append(ks, k)
	}
	sort.Strings(ks)
	return strings.Join(ks, ",")
}

func (r *runner) atTerminal(w *sched.World) {
	live := w.Live()
	if len(live) == 0 {
		return
	}
	var blocked []string
	for _, t := range live {
		blocked = append(blocked, t.Name+":"+w.DescribePending(t))
	}
	b := strings.Join(blocked, " ")
	if !w.MainRet {
		r.note("deadlock", "the injector never returns: no thread is enabled", "", b)
		return
	}
	r.note("leak", "goroutine(s) blocked forever after the injector returned", w.MainSite, b)
}

// RunCase explores one case under one scenario.
func RunCase(c *rt.Case, info *CaseInfo, sc Scenario, maxExecs int) *Result {
	start := time.Now()
	r := &runner{c: c, info: info, sc: sc, prov: map[string]*ProvInfo{}, fail: map[string]bool{}, errs: map[string]error{},
		obs: map[string]*Obs{}, outs: map[string]*Outcome{}, notForced: map[string]bool{}, enteredAny: map[string]bool{}}
	r.res = &Result{Pkg: info.Pkg, Scenario: sc.Name, Fail: sc.Fail, Cancel: sc.Cancel}
	for i := range info.Provs {
		p := &info.Provs[i]
		r.prov[p.ID] = p
		if p.Needed && p.Async {
			r.asyncs = append(r.asyncs, p.ID)
			if p.InputFree {
				r.inputFree = append(r.inputFree, p.ID)
			}
		}
	}
	for _, f := range sc.Fail {
		r.fail[f] = true
		r.errs[f] = errors.New("fail:" + f)
	}
	rt.SetBackend(r)
	defer rt.SetBackend(nil)

	var curChoices func() []int
	r.choice = func() []int { return curChoices() }
	setup := func(w *sched.World) func() {
		r.cur = &execState{entered: map[string]int{}, exited: map[string]bool{}, inside: map[string]bool{}, failedEx: map[string]bool{}}
		r.curW = w
		w.OnEvent = r.onEvent
		return func() {
			ctx := vctx.New()
			if sc.Cancel {
				sched.GoEnv("canceller", func() {
					if sched.EnvCancelPoint() {
						ctx.Cancel(nil, "caller")
					}
				})
			}
			term, err := c.Call(ctx)
			es := ""
			if err != nil {
				es = err.Error()
			}
			sched.MainReturn(term + "\x1f" + es)
		}
	}
	e := &sched.Explorer{MaxExecs: maxExecs, Setup: setup}
	curChoices = e.CurrentChoices
	e.AtState = func(w *sched.World, alts []sched.Alt) {
		if len(alts) == 0 {
			r.atTerminal(w)
			return
		}
		if !r.res.CoEnabled {
			first := alts[0].T
			for _, a := range alts[1:] {
				if a.T != first {
					r.res.CoEnabled = true
					break
				}
			}
		}
	}
	e.AfterRun = func(w *sched.World, choices []int, cut bool) {
		if len(w.Threads) > r.res.Threads {
			r.res.Threads = len(w.Threads)
		}
		for _, v := range w.Viol {
			d := v.Detail
			if v.Kind == "panic" {
				if i := strings.Index(d, "\n"); i > 0 {
					d = d[:i]
				}
			}
			key := v.Kind + "||" + d + "|"
			if o, ok := r.obs[key]; ok {
				o.Count++
			} else {
				r.obs[key] = &Obs{Kind: v.Kind, Detail: d, Count: 1, Schedule: append([]int(nil), choices...)}
			}
		}
		if w.Unsupported != "" {
			r.res.Unsupported = w.Unsupported
		}
	}
	e.Explore()
	r.res.States, r.res.Transitions, r.res.Execs, r.res.MaxDepth, r.res.Capped = e.States, e.Transitions, e.Execs, e.MaxDepth, e.Capped
	r.res.OverlapAll = len(r.inputFree) > 0 && r.res.MaxOverlap == len(r.inputFree)
	for _, p := range r.inputFree {
		if !r.enteredAny[p] {
			continue
		}
		for _, q := range r.asyncs {
			if q != p && !r.notForced[p+"<"+q] {
				r.res.ForcedAfter = append(r.res.ForcedAfter, p+"<"+q)
			}
		}
	}
	sort.Strings(r.res.ForcedAfter)
	for _, o := range r.outs {
		r.res.Outcomes = append(r.res.Outcomes, *o)
	}
	sort.Slice(r.res.Outcomes, func(i, j int) bool {
		a, b := r.res.Outcomes[i], r.res.Outcomes[j]
		return a.Term+a.Err+a.Site < b.Term+b.Err+b.Site
	})
	var ks []string
	for k := range r.obs {
		ks = append(ks, k)
	}
	sort.Strings(ks)
	for _, k := range ks {
		o := r.obs[k]
		// replay twice: a schedule is believed only if it reproduces the same event log
		_, l1 := sched.Replay(setup, o.Schedule)
		_, l2 := sched.Replay(setup, o.Schedule)
		o.Stable = l1 == l2 && l1 != ""
		if len(l1) > 6000 {
			l1 = l1[:6000] + "…"
		}
		o.Log = l1
		r.res.Obs = append(r.res.Obs, *o)
	}
	r.res.WallMs = time.Since(start).Milliseconds()
	return r.res
}

// CollectTraces enumerates ALL executions of a case under a scenario without pruning and returns the
// distinct (provider-level projection, outcome) pairs.
func CollectTraces(c *rt.Case, info *CaseInfo, sc Scenario, maxExecs int) *TraceSet {
	ts := &TraceSet{Pkg: info.Pkg, Scenario: sc.Name, Fail: sc.Fail, Cancel: sc.Cancel}
	fail := map[string]bool{}
	errs := map[string]error{}
	for _, f := range sc.Fail {
		fail[f] = true
		errs[f] = errors.New("fail:" + f)
	}
	rt.SetBackend(backendFunc(func(pid string, args []string) (string, error) {
		sched.Yield("enter:"+pid, args...)
		sched.Yield("exit:" + pid)
		if fail[pid] {
			return "", errs[pid]
		}
		return rt.Term(pid, args), nil
	}))
	defer rt.SetBackend(nil)
	seen := map[string]bool{}
	setupFn := func(w *sched.World) func() {
		return func() {
			ctx := vctx.New()
			if sc.Cancel {
				sched.GoEnv("canceller", func() {
					if sched.EnvCancelPoint() {
						ctx.Cancel(nil, "caller")
					}
				})
			}
			term, err := c.Call(ctx)
			es := ""
			if err != nil {
				es = err.Error()
			}
			sched.MainReturn(term + "\x1f" + es)
		}
	}
	afterRun := func(w *sched.World, choices []int, cut bool) {
		if cut {
			return
		}
		tr := Trace{}
		for _, ev := range w.Log {
			switch ev.Kind {
			case sched.OpYield:
				tr.Proj = append(tr.Proj, ev.Label)
			case sched.OpEnvCancel:
				tr.Proj = append(tr.Proj, "cancel")
			case sched.OpMainReturn:
				parts := strings.SplitN(ev.Label, "\x1f", 2)
				tr.Term, tr.Err, tr.Returned = parts[0], parts[1], true
			}
		}
		for _, v := range w.Viol {
			if v.Kind == "race" {
				tr.Race = true
				ts.Race = true
			}
		}
		k := strings.Join(tr.Proj, ",") + "=>" + tr.Term + "/" + tr.Err + fmt.Sprint(tr.Returned)
		if !seen[k] {
			seen[k] = true
			ts.Traces = append(ts.Traces, tr)
		}
	}
	if info.POR {
		// large shapes: one interleaving per Mazurkiewicz trace (the unpruned enumeration is out of reach); each of
		// them is a complete provider-level order that can be forced on the real injector
		d := &sched.DPOR{MaxExecs: maxExecs, KeepLog: true, Setup: setupFn}
		d.AfterRun = func(w *sched.World, choices []int, complete bool) { afterRun(w, choices, !complete) }
		d.Explore()
		ts.Execs, ts.Capped, ts.POR = d.Execs, d.Capped, true
		return ts
	}
	e := &sched.Explorer{MaxExecs: maxExecs, NoPrune: true, KeepLog: true, Setup: setupFn, AfterRun: afterRun}
	e.Explore()
	ts.Execs, ts.Capped = e.Execs, e.Capped
	return ts
}

type backendFunc func(pid string, args []string) (string, error)

func (f backendFunc) Call(pid string, args []string) (string, error) { return f(pid, args) }
