package main

import (
	"crypto/sha256"
	"encoding/hex"
	"fmt"
	"os"
	"os/exec"
	"path/filepath"
	"sort"
	"strings"

	"verif/internal/decl"
	"verif/internal/pipe"
	"verif/internal/seam"
)

type c11Prog struct {
	Name string
	Dir  string // absolute directory in the scratch repository copy
	File string // input file
}

func (p *c11Prog) out() string { return filepath.Join(p.Dir, strings.TrimSuffix(p.File, ".go")+"_band.go") }

func sha(b []byte) string {
	h := sha256.Sum256(b)
	return hex.EncodeToString(h[:])[:16]
}

// scratchRepo copies the parts of the repository the generator's inputs live in (module files,
// the annotation package, examples, golden inputs) to a scratch directory outside /repo and /verif.
func scratchRepo(dst string) error {
	repo := pipe.RepoDir()
	if err := os.MkdirAll(dst, 0o755); err != nil {
		return err
	}
	ents, _ := os.ReadDir(repo)
	for _, e := range ents {
		n := e.Name()
		if !e.IsDir() && (strings.HasSuffix(n, ".go") && !strings.HasSuffix(n, "_test.go") || n == "go.mod" || n == "go.sum") {
			b, _ := os.ReadFile(filepath.Join(repo, n))
			_ = os.WriteFile(filepath.Join(dst, n), b, 0o644)
		}
	}
	for _, d := range []string{"examples", "internal/kessoku/testdata"} {
		if err := os.MkdirAll(filepath.Dir(filepath.Join(dst, d)), 0o755); err != nil {
			return err
		}
		if out, err := exec.Command("cp", "-a", filepath.Join(repo, d), filepath.Join(dst, d)).CombinedOutput(); err != nil {
			return fmt.Errorf("cp %s: %v %s", d, err, out)
		}
	}
	return nil
}

func runGen(bin string, p *c11Prog, extraEnv ...string) (int, string) {
	cmd := exec.Command(bin, "-l", "error", p.File)
	cmd.Dir = p.Dir
	cmd.Env = append(pipe.GoEnv("GOFLAGS=-mod=mod"), extraEnv...)
	out, err := cmd.CombinedOutput()
	if err != nil {
		if ee, ok := err.(*exec.ExitError); ok {
			return ee.ExitCode(), string(out)
		}
		return -1, err.Error()
	}
	return 0, string(out)
}

func runC11(args []string) {
	tier := parseTier(args)
	rc := newRunCtx("C11", tier)
	rc.Level = "exploration"
	env := pipe.Setup()
	scratch, err := os.MkdirTemp("", "verif-c11-")
	if err != nil {
		fmt.Println("SETUP-FAILED:", err)
		os.Exit(2)
	}
	defer os.RemoveAll(scratch)
	if err := scratchRepo(scratch); err != nil {
		fmt.Println("SETUP-FAILED: scratch copy:", err)
		os.Exit(2)
	}
	var progs []*c11Prog
	committed := map[string][]byte{}
	for _, base := range []string{"examples", "internal/kessoku/testdata"} {
		ents, _ := os.ReadDir(filepath.Join(scratch, base))
		for _, e := range ents {
			if !e.IsDir() {
				continue
			}
			d := filepath.Join(scratch, base, e.Name())
			if _, err := os.Stat(filepath.Join(d, "kessoku.go")); err != nil {
				continue
			}
			p := &c11Prog{Name: base + "/" + e.Name(), Dir: d, File: "kessoku.go"}
			if b, err := os.ReadFile(p.out()); err == nil && base == "examples" {
				committed[p.Name] = b
			}
			_ = os.Remove(filepath.Join(d, "expected.go")) // golden expectation is not an input
			progs = append(progs, p)
		}
	}
	// declarations of the universe with concurrency, struct expansion, binds and sets
	corpusDecls := pickCorpusDecls(rc.Thorough())
	for i, d := range corpusDecls {
		pkg := fmt.Sprintf("u%03d", i)
		dir := filepath.Join(scratch, "internal", "kessoku", "testdata", pkg)
		_ = os.MkdirAll(dir, 0o755)
		src := strings.Replace(d.Emit(pkg), "\"verif/rt\"", "rt \"github.com/mazrean/kessoku/internal/kessoku/testdata/rtstub\"", 1)
		_ = os.WriteFile(filepath.Join(dir, "kessoku.go"), []byte(src), 0o644)
		progs = append(progs, &c11Prog{Name: "universe/" + d.Spec(), Dir: dir, File: "kessoku.go"})
	}
	// packages spread over several files whose files import different packages with the same name
	// (the allocator must rename one of them; which one must not depend on file visiting order)
	for _, mp := range multiFilePrograms() {
		dir := filepath.Join(scratch, "internal", "kessoku", "testdata", mp.name)
		for rel, src := range mp.files {
			_ = os.MkdirAll(filepath.Dir(filepath.Join(dir, rel)), 0o755)
			_ = os.WriteFile(filepath.Join(dir, rel), []byte(src), 0o644)
		}
		progs = append(progs, &c11Prog{Name: "multifile/" + mp.name, Dir: dir, File: "kessoku.go"})
	}
	stub := filepath.Join(scratch, "internal", "kessoku", "testdata", "rtstub")
	_ = os.MkdirAll(stub, 0o755)
	_ = os.WriteFile(filepath.Join(stub, "rt.go"), []byte("package rtstub\n\nfunc Call(pid string, args ...string) (string, error) { return pid, nil }\n\nfunc TermOf(x interface{ Term() string }) string { return x.Term() }\n"), 0o644)

	// canonical outputs: first clean run
	canon := make([][]byte, len(progs))
	canonExit := make([]int, len(progs))
	pipe.Parallel(len(progs), 16, func(i int) {
		p := progs[i]
		_ = os.Remove(p.out())
		code, msg := runGen(env.Kessoku, p)
		canonExit[i] = code
		if code != 0 {
			canon[i] = []byte("EXIT " + fmt.Sprint(code) + " " + msg)
			return
		}
		canon[i], _ = os.ReadFile(p.out())
	})
	evals := 0
	distinct := map[string]bool{}
	var samples []any
	usable := []int{}
	for i, p := range progs {
		evals++
		if canonExit[i] != 0 {
			rc.Notes = append(rc.Notes, "program "+p.Name+" is refused by the generator (not an accepted declaration): "+lastLine(string(canon[i])))
			continue
		}
		usable = append(usable, i)
		distinct[sha(canon[i])] = true
		if b, ok := committed[p.Name]; ok && string(b) != string(canon[i]) {
			rc.Add(Finding{Kind: "example-out-of-date", Detail: "the checked-in " + p.Name + "/kessoku_band.go is not what the current generator produces from its sources", Witness: p.Name, Replay: map[string]any{"regenerated": string(canon[i]), "committed": string(b)}})
		}
	}
	rc.Coverage["examples_compared_with_checked_in_output"] = len(committed)

	// (1) histories of the output file: breadth-first over manipulations, `generate` after each
	type hstate struct {
		content string // "\x00absent" when missing
		hist    []string
	}
	const absent = "\x00absent"
	depth := 2
	if rc.Thorough() {
		depth = 3
	}
	histRuns := make([]int, len(progs))
	histStates := make([]int, len(progs))
	type hfind struct{ f Finding }
	hfinds := make([][]Finding, len(progs))
	histProgs := usable
	if !rc.Thorough() && len(histProgs) > 24 {
		histProgs = pick(histProgs, 24, rc.Seed)
		// the multi-package programs always take part
		for _, i := range usable {
			if strings.HasPrefix(progs[i].Name, "multifile/") && indexOfInt(histProgs, i) < 0 {
				histProgs = append(histProgs, i)
			}
		}
	}
	pipe.Parallel(len(histProgs), 16, func(ix int) {
		i := histProgs[ix]
		p := progs[i]
		can := string(canon[i])
		other := string(canon[usable[(ix+1)%len(usable)]])
		pkgLine := "package main"
		for _, l := range strings.Split(can, "\n") {
			if strings.HasPrefix(l, "package ") {
				pkgLine = l
			}
		}
		otherFixed := other
		for _, l := range strings.Split(other, "\n") {
			if strings.HasPrefix(l, "package ") {
				otherFixed = strings.Replace(other, l, pkgLine, 1)
			}
		}
		ops := []struct {
			name string
			f    func(cur string) string
		}{
			{"delete", func(string) string { return absent }},
			{"empty", func(string) string { return "" }},
			{"garbage", func(string) string { return "this is not Go {{{\n" }},
			{"other-package-clause", func(string) string { return strings.Replace(can, pkgLine, "package somethingelse", 1) }},
			{"stale-same-names", func(string) string {
				return pkgLine + "\n\n// stale output: same function names, old bodies\n" + staleBodies(can)
			}},
			{"stale-other-declaration", func(string) string { return otherFixed }},
			{"duplicate-of-user-type", func(string) string { return can + "\n\ntype VerifStaleType struct{ A int }\n\nvar verifStaleVar = 1\n" }},
		}
		cuts := 6
		if rc.Thorough() {
			cuts = 24
		}
		for c := 1; c <= cuts; c++ {
			frac := c
			ops = append(ops, struct {
				name string
				f    func(cur string) string
			}{fmt.Sprintf("truncate@%d/%d", frac, cuts+1), func(cur string) string {
				if cur == absent {
					return absent
				}
				return cur[:len(cur)*frac/(cuts+1)]
			}})
		}
		seen := map[string]bool{absent: true}
		frontier := []hstate{{content: absent}}
		gen := func(s hstate) {
			// materialise the state, run generate, compare
			if s.content == absent {
				_ = os.Remove(p.out())
			} else {
				_ = os.WriteFile(p.out(), []byte(s.content), 0o644)
			}
			code, msg := runGen(env.Kessoku, p)
			histRuns[i]++
			got, _ := os.ReadFile(p.out())
			if code != 0 || string(got) != can {
				detail := "output differs from the clean-directory output"
				if code != 0 {
					detail = "generator exited " + fmt.Sprint(code) + ": " + lastLine(msg)
				}
				hfinds[i] = append(hfinds[i], Finding{Kind: "history-dependent-output", Site: s.hist[len(s.hist)-1], Detail: detail + " after leftover history [" + strings.Join(s.hist, ", ") + "]", Witness: p.Name + " ; history " + strings.Join(s.hist, ", "),
					Replay: map[string]any{"program": p.Name, "history": s.hist, "leftover_content": s.content, "got": string(got), "canonical": can}})
			}
		}
		for d := 0; d < depth; d++ {
			var next []hstate
			for _, s := range frontier {
				for _, op := range ops {
					nc := op.f(s.content)
					h := append(append([]string(nil), s.hist...), op.name)
					if !seen[nc] {
						seen[nc] = true
						ns := hstate{content: nc, hist: h}
						next = append(next, ns)
						gen(ns)
					}
				}
				// generate from this state leads back to canonical (checked above); manipulations of the
				// canonical content are the successors of that
				if d == 0 && !seen[can] {
					seen[can] = true
					next = append(next, hstate{content: can, hist: []string{"generate"}})
				}
			}
			frontier = next
		}
		// idempotence: generate twice in a row from the clean state
		_ = os.Remove(p.out())
		runGen(env.Kessoku, p)
		code, _ := runGen(env.Kessoku, p)
		histRuns[i] += 2
		got, _ := os.ReadFile(p.out())
		if code != 0 || string(got) != can {
			hfinds[i] = append(hfinds[i], Finding{Kind: "history-dependent-output", Site: "generate,generate", Detail: "the second of two consecutive runs differs from the first", Witness: p.Name})
		}
		histStates[i] = len(seen)
	})
	totalHistRuns, totalHistStates := 0, 0
	for i := range progs {
		totalHistRuns += histRuns[i]
		totalHistStates += histStates[i]
		for _, f := range hfinds[i] {
			rc.Add(f)
		}
	}
	evals += totalHistRuns
	samples = append(samples, map[string]any{"axis": "history", "program": progs[histProgs[0]].Name, "leftover_states_explored": histStates[histProgs[0]], "generator_runs": histRuns[histProgs[0]]})

	// (2) map iteration order: every permutation of every reached range-over-map site
	seamDir := filepath.Join(env.Work, "seam-c11")
	ov, err := seam.Build(pipe.GoBin, pipe.RepoDir(), pipe.RepoGoEnv(), "github.com/mazrean/kessoku", []string{"internal/kessoku"}, seamDir)
	if err != nil {
		fmt.Println("SETUP-FAILED: map-order seam:", err)
		os.Exit(2)
	}
	ovPath := filepath.Join(seamDir, "overlay.json")
	_ = ov.WriteJSON(ovPath)
	seamBin := filepath.Join(env.Work, "bin", "kessoku-seam")
	bcmd := exec.Command(pipe.GoBin, "build", "-buildvcs=false", "-tags", "verif", "-overlay", ovPath, "-o", seamBin, "./cmd/kessoku")
	bcmd.Dir = pipe.RepoDir()
	bcmd.Env = pipe.RepoGoEnv()
	if out, err := bcmd.CombinedOutput(); err != nil {
		fmt.Printf("SETUP-FAILED: building the CLI with the map-order seam: %v\n%s\n", err, out)
		os.Exit(2)
	}
	type seamJob struct {
		prog     int
		site     string
		occ, k   int
		perm     []int
		sortable bool
	}
	var sjobs []seamJob
	seamExhaustive := true
	sitesReached := map[string]bool{}
	unsortableSites := map[string]bool{}
	for _, i := range usable {
		p := progs[i]
		logf := filepath.Join(p.Dir, ".seamlog")
		_ = os.Remove(logf)
		_ = os.Remove(p.out())
		code, _ := runGen(seamBin, p, "VERIF_SEAM_LOG="+logf)
		evals++
		got, _ := os.ReadFile(p.out())
		if code != 0 || string(got) != string(canon[i]) {
			rc.Add(Finding{Kind: "seam-baseline-differs", Detail: "the CLI built with the map-order seam (identity order) does not reproduce the canonical output; the seam would misrepresent the code", Witness: p.Name})
			continue
		}
		b, _ := os.ReadFile(logf)
		_ = os.Remove(logf)
		for _, l := range strings.Split(strings.TrimSpace(string(b)), "\n") {
			var site string
			var occ, k int
			var sortable bool
			if n, _ := fmt.Sscanf(l, "%s %d %d %t", &site, &occ, &k, &sortable); n != 4 || k < 2 {
				continue
			}
			sitesReached[site] = true
			perms, ex := seam.Permutations(k)
			if !ex {
				seamExhaustive = false
			}
			if !sortable {
				unsortableSites[site] = true
				seamExhaustive = false
			}
			if len(perms) > 80 {
				perms = perms[:80]
				seamExhaustive = false
			}
			for _, pm := range perms[1:] {
				sjobs = append(sjobs, seamJob{prog: i, site: site, occ: occ, k: k, perm: pm, sortable: sortable})
			}
		}
	}
	// each job needs its own directory copy (parallel runs must not share the output file)
	sfinds := make([]*Finding, len(sjobs))
	applied := make([]bool, len(sjobs))
	pipe.Parallel(len(sjobs), 16, func(j int) {
		sj := sjobs[j]
		p := progs[sj.prog]
		dir := p.Dir + fmt.Sprintf(".seam%d", j)
		if out, err := exec.Command("cp", "-a", p.Dir, dir).CombinedOutput(); err != nil {
			sfinds[j] = &Finding{Kind: "harness-error", Detail: string(out)}
			return
		}
		defer os.RemoveAll(dir)
		q := &c11Prog{Name: p.Name, Dir: dir, File: p.File}
		_ = os.Remove(q.out())
		var ps []string
		for _, x := range sj.perm {
			ps = append(ps, fmt.Sprint(x))
		}
		spec := fmt.Sprintf("%s:%d:%s", sj.site, sj.occ, strings.Join(ps, ","))
		logf := filepath.Join(dir, ".seamlog")
		code, msg := runGen(seamBin, q, "VERIF_SEAM="+spec, "VERIF_SEAM_LOG="+logf)
		if lb, _ := os.ReadFile(logf); strings.Contains(string(lb), "APPLIED "+spec) {
			applied[j] = true
		}
		got, _ := os.ReadFile(q.out())
		// the copied directory has another import path only if the package is referenced by path; outputs are compared as text
		if code != 0 || string(got) != string(canon[sj.prog]) {
			detail := "output differs from the canonical output"
			if code != 0 {
				detail = "generator exited " + fmt.Sprint(code) + ": " + lastLine(msg)
			}
			sfinds[j] = &Finding{Kind: "map-order-dependent-output", Site: sj.site, Detail: detail + " when the map at " + sj.site + " (visit " + fmt.Sprint(sj.occ) + ") is iterated in order " + strings.Join(ps, ","), Witness: p.Name + " ; VERIF_SEAM=" + spec,
				Replay: map[string]any{"program": p.Name, "seam": spec, "got": string(got), "canonical": string(canon[sj.prog])}}
		}
	})
	for _, f := range sfinds {
		if f != nil {
			if f.Kind == "harness-error" {
				fmt.Println("EXPLORER-FAILED:", f.Detail)
				os.Exit(2)
			}
			rc.Add(*f)
		}
	}
	evals += len(sjobs)
	nApplied := 0
	for _, a := range applied {
		if a {
			nApplied++
		}
	}
	if len(sjobs) > 0 && nApplied < len(sjobs)*9/10 {
		// a permutation that is not applied explores nothing: refuse to report a vacuous run
		fmt.Printf("EXPLORER-FAILED: only %d of %d map-order permutations were actually applied by the seam\n", nApplied, len(sjobs))
		os.Exit(2)
	}
	rc.Coverage["map_order_permutations_applied"] = nApplied
	var siteList []string
	for s := range sitesReached {
		siteList = append(siteList, s)
	}
	sort.Strings(siteList)
	samples = append(samples, map[string]any{"axis": "map-order", "sites_in_overlay": ov.Sites, "sites_reached_with_2+_keys": siteList, "permutation_runs": len(sjobs), "unroutable_ranges": ov.Skipped})

	// (3) GOMAXPROCS x repetitions
	procs := []int{1, 2, 3, 4, 8, 16}
	reps := 2
	if rc.Thorough() {
		procs = []int{1, 2, 3, 4, 5, 6, 7, 8, 9, 10, 11, 12, 13, 14, 15, 16}
		reps = 3
	}
	type gj struct{ prog, procs, rep int }
	var gjobs []gj
	for _, i := range usable {
		for _, n := range procs {
			for r := 0; r < reps; r++ {
				gjobs = append(gjobs, gj{i, n, r})
			}
		}
	}
	gfinds := make([]*Finding, len(gjobs))
	pipe.Parallel(len(gjobs), 16, func(j int) {
		g := gjobs[j]
		p := progs[g.prog]
		dir := p.Dir + fmt.Sprintf(".gmp%d", j)
		if out, err := exec.Command("cp", "-a", p.Dir, dir).CombinedOutput(); err != nil {
			gfinds[j] = &Finding{Kind: "harness-error", Detail: string(out)}
			return
		}
		defer os.RemoveAll(dir)
		q := &c11Prog{Name: p.Name, Dir: dir, File: p.File}
		_ = os.Remove(q.out())
		cmd := exec.Command(env.Kessoku, "-l", "error", q.File)
		cmd.Dir = q.Dir
		cmd.Env = pipe.GoEnv(fmt.Sprintf("GOMAXPROCS=%d", g.procs))
		_, err := cmd.CombinedOutput()
		got, _ := os.ReadFile(q.out())
		if err != nil || string(got) != string(canon[g.prog]) {
			gfinds[j] = &Finding{Kind: "run-dependent-output", Site: fmt.Sprintf("GOMAXPROCS=%d", g.procs), Detail: fmt.Sprintf("output of repetition %d under GOMAXPROCS=%d differs from the canonical output", g.rep, g.procs), Witness: p.Name}
		}
	})
	for _, f := range gfinds {
		if f != nil {
			if f.Kind == "harness-error" {
				fmt.Println("EXPLORER-FAILED:", f.Detail)
				os.Exit(2)
			}
			rc.Add(*f)
		}
	}
	evals += len(gjobs)
	samples = append(samples, map[string]any{"axis": "GOMAXPROCS", "values": procs, "repetitions": reps, "runs": len(gjobs)})

	rc.Coverage["evaluations"] = evals
	rc.Coverage["distinct_nontrivial"] = len(distinct)
	rc.Coverage["rule"] = fmt.Sprintf("programs: every golden input of internal/kessoku/testdata, every examples/* package (in a scratch copy of the repository) and %d declarations of the universe; canonical output = first run in a clean directory. (1) output-file histories: breadth-first, depth %d, over {delete, empty, garbage, other package clause, stale output with the same function names, stale output of another declaration, extra declarations, truncation at k cut points}, `generate` after every newly reached leftover content must exit 0 and reproduce the canonical bytes; (2) map iteration order: a build overlay routes every `range` over a map in internal/kessoku through a seam; for every (site, visit) reached with >= 2 keys ALL k! orders (k <= 4; beyond that identity+reversal+transpositions) are forced, one deviating visit per run; (3) GOMAXPROCS %v x %d repetitions; (4) examples/*/kessoku_band.go compared with regeneration. distinct = distinct canonical output texts", len(corpusDecls), depth, procs, reps)
	rc.Coverage["samples"] = samples
	rc.Coverage["exhaustive"] = seamExhaustive
	rc.Coverage["programs"] = len(progs)
	rc.Coverage["history_generator_runs"] = totalHistRuns
	rc.Coverage["history_leftover_states"] = totalHistStates
	rc.Coverage["map_order_sites_with_unsortable_keys_sampled_only"] = keysOf(unsortableSites)
	rc.Coverage["tree_hash"] = env.Hash
	rc.Assume = []string{"the map-order seam changes only the iteration order (its identity run must reproduce the canonical output, checked)", "maps keyed by pointers have no canonical base order: their permutations are applied on top of the runtime's order and are reported as sampled, not exhaustive", "one deviating map visit per run"}
	rc.Finish()
}

func keysOf(m map[string]bool) []string {
	out := []string{}
	for k := range m {
		out = append(out, k)
	}
	sort.Strings(out)
	return out
}

// staleBodies keeps the function signatures of a generated file but replaces bodies.
func staleBodies(can string) string {
	var sb strings.Builder
	lines := strings.Split(can, "\n")
	inImport := false
	for _, l := range lines {
		switch {
		case strings.HasPrefix(l, "import ("):
			inImport = true
		case inImport && l == ")":
			inImport = false
		case strings.HasPrefix(l, "func ") && strings.HasSuffix(l, "{"):
			// imports are dropped, so spell no package-qualified types: use a body-less wrapper name
			name := l[5:strings.IndexByte(l, '(')]
			sb.WriteString("func " + name + "Stale() { panic(\"stale\") }\n\nvar " + name + " = " + name + "Stale\n\n")
		}
	}
	return sb.String()
}

// pickCorpusDecls selects declarations of the universe that exercise goroutines, struct expansion,
// binds, multi-value providers, sets and a second injector in the file.
func pickCorpusDecls(thorough bool) []*decl.Decl {
	want := []string{"wide", "struct-ptr@", "struct-split@", "bind@", "bind-half@", "multi-both@", "multi-split@", "two-sets", "nested-set-reversed", "ctx-injector", "arg-shared@", "value@", "valtype@", "perm[2 0 1]"}
	per := 2
	if thorough {
		per = 5
	}
	count := map[string]int{}
	var out []*decl.Decl
	for _, d := range decl.Universe("quick") {
		for _, w := range want {
			if strings.Contains(d.Note, w) && count[w] < per && (strings.Contains(d.Note, "async=11") || strings.Contains(d.Note, "async=01")) {
				count[w]++
				out = append(out, d)
				break
			}
		}
	}
	return out
}

type multiFileProg struct {
	name  string
	files map[string]string
}

// multiFilePrograms: user packages of 3-4 files; two (or three) files import different packages
// that share a package name, and types of all of them reach the generated code.
func multiFilePrograms() []multiFileProg {
	const base = "github.com/mazrean/kessoku/internal/kessoku/testdata/"
	mk := func(name string, pkgs []string, async bool) multiFileProg {
		files := map[string]string{}
		var provs, params []string
		for i, p := range pkgs {
			// sub-package <p>/config with type C<i>
			files[p+"/config/config.go"] = fmt.Sprintf("package config\n\ntype C%d struct{ V int }\n", i)
			files[fmt.Sprintf("file%d.go", i)] = fmt.Sprintf("package %s\n\nimport \"%s%s/%s/config\"\n\nfunc New%d() *config.C%d { return &config.C%d{} }\n", name, base, name, p, i, i, i)
			w := fmt.Sprintf("kessoku.Provide(New%d)", i)
			if async {
				w = "kessoku.Async(" + w + ")"
			}
			provs = append(provs, w)
			params = append(params, fmt.Sprintf("c%d *cfg%d.C%d", i, i, i))
		}
		imp := "import (\n\t\"github.com/mazrean/kessoku\"\n"
		for i, p := range pkgs {
			imp += fmt.Sprintf("\tcfg%d \"%s%s/%s/config\"\n", i, base, name, p)
		}
		imp += ")\n\n"
		files["app.go"] = "package " + name + "\n\n" + imp + "type App struct{ N int }\n\nfunc NewApp(" + strings.Join(params, ", ") + ") *App { return &App{} }\n\nvar _ = kessoku.Provide[int]\n"
		files["kessoku.go"] = "package " + name + "\n\nimport \"github.com/mazrean/kessoku\"\n\nvar _ = kessoku.Inject[*App](\n\t\"InitApp\",\n\t" + strings.Join(provs, ",\n\t") + ",\n\tkessoku.Provide(NewApp),\n)\n"
		return multiFileProg{name: name, files: files}
	}
	// a dependency type from a package that NO source file of the injector's package imports (the providers live in
	// another package) and whose name differs from the last element of its import path (a /vN module): the
	// generated file has to import it on its own, and how it spells that import must not depend on whether an
	// earlier output (which already contains the import) is part of the loaded package
	lazy := func(name string) multiFileProg {
		files := map[string]string{}
		files["pgx/v5/pgx.go"] = "package pgx\n\ntype Conn struct{ V int }\n\ntype Pool struct{ V int }\n"
		files["yaml.v3/yaml.go"] = "package yaml\n\ntype Node struct{ V int }\n"
		files["infra/infra.go"] = "package infra\n\nimport (\n\tpgx \"" + base + name + "/pgx/v5\"\n\tyaml \"" + base + name + "/yaml.v3\"\n)\n\ntype Repo struct{ V int }\n\nfunc NewConn() *pgx.Conn { return &pgx.Conn{} }\n\nfunc NewPool() *pgx.Pool { return &pgx.Pool{} }\n\nfunc NewRepo(c *pgx.Conn, n *yaml.Node) *Repo { return &Repo{} }\n\nfunc NewRepo2(c *pgx.Conn, p *pgx.Pool) *Repo { return &Repo{} }\n"
		files["kessoku.go"] = "package " + name + "\n\nimport (\n\t\"github.com/mazrean/kessoku\"\n\t\"" + base + name + "/infra\"\n)\n\n" +
			"// *pgx.Conn and *yaml.Node are supplied by nobody: they become injector arguments\nvar _ = kessoku.Inject[*infra.Repo](\n\t\"InitRepo\",\n\tkessoku.Provide(infra.NewRepo),\n)\n\n" +
			"// predeclared variables of the foreign types in an Async injector\nvar _ = kessoku.Inject[*infra.Repo](\n\t\"InitRepoAsync\",\n\tkessoku.Async(kessoku.Provide(infra.NewConn)),\n\tkessoku.Async(kessoku.Provide(infra.NewPool)),\n\tkessoku.Provide(infra.NewRepo2),\n)\n"
		return multiFileProg{name: name, files: files}
	}
	return []multiFileProg{
		mk("mfsync", []string{"storage", "cache"}, false),
		mk("mfasync", []string{"storage", "cache", "queue"}, true),
		lazy("lazyimport"),
	}
}

func indexOfInt(xs []int, x int) int {
	for i, v := range xs {
		if v == x {
			return i
		}
	}
	return -1
}
