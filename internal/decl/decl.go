// Package decl defines the declaration universe: a small IR for kessoku.Inject declarations,
// its bounded-exhaustive enumeration, the Go source emitter and a boring reference interpreter
// (written from the README / doc-comment semantics, knowing nothing about pools or channels).
package decl

import (
	"crypto/sha256"
	"encoding/hex"
	"fmt"
	"sort"
	"strings"
)

type Kind int

const (
	Func   Kind = iota // kessoku.Provide(Pk)
	Value              // kessoku.Value(&Tk{R: "val:Pk"})
	Struct             // kessoku.Struct[S]() — expands the exported fields of S
)

// Prov is one provider of a declaration.
type Prov struct {
	ID        int
	Kind      Kind
	Requires  []string // parameter types, in order ("ctx" = context.Context)
	Provides  []string // result types (1 or 2); for Struct: the struct type being expanded
	Fallible  bool
	Async     bool
	Bind      string // interface type bound to this provider ("" = none)
	BindOuter bool   // true: Bind(Async(..)); false: Async(Bind(..))
	Set       int    // 0 = listed directly in Inject; k>0 = member of Set k
	ErrAlias  bool   // the error result is spelled through an alias (type Failure = error)
}

func (p *Prov) Name() string { return fmt.Sprintf("P%d", p.ID) }

type Field struct {
	Name string
	Type string // a type of the universe; "AT<k>" is a declared alias of *T<k> (type AT<k> = *T<k>)
}

// Canon resolves the alias spelling of a type ("AT3" names the same type as "*T3").
func Canon(t string) string {
	if strings.HasPrefix(t, "AT") {
		return "*T" + strings.TrimPrefix(t, "AT")
	}
	return t
}

// Decl is one kessoku.Inject declaration together with the user package it lives in.
type Decl struct {
	Name    string // injector name
	Target  string
	Provs   []*Prov
	Order   []int              // position -> index into Provs (declaration order)
	Structs map[string][]Field // struct name (without *) -> fields
	SetVar  map[int]bool       // set k is a package-level variable (true) or inline kessoku.Set(...) (false)
	SetNest map[int]int        // set k is nested in set SetNest[k] (0 = top level)
	Note    string             // how this declaration was derived (base shape + variant)
	// Prelude places another, trivial injector ("Pre", taking context.Context) before this one in the
	// same file, so that the shared name allocator has already handed out ctx, and this injector's
	// context parameter is called ctx0 ("several injectors per file").
	Prelude string
	// Large marks the shapes beyond the small-scope universe (up to a dozen providers, up to ten goroutines);
	// they are explored with partial-order reduction only.
	Large bool
}

func (d *Decl) Spec() string {
	var sb strings.Builder
	for i, idx := range d.order() {
		p := d.Provs[idx]
		if i > 0 {
			sb.WriteString(" | ")
		}
		sb.WriteString(p.Name() + ":")
		var fl []string
		switch p.Kind {
		case Value:
			fl = append(fl, "value")
		case Struct:
			fl = append(fl, "struct")
		}
		if p.Async {
			fl = append(fl, "async")
		}
		if p.Fallible {
			fl = append(fl, "fallible")
		}
		if p.ErrAlias {
			fl = append(fl, "err-alias")
		}
		if p.Bind != "" {
			if p.BindOuter {
				fl = append(fl, "bind-outer["+p.Bind+"]")
			} else {
				fl = append(fl, "bind["+p.Bind+"]")
			}
		}
		if p.Set > 0 {
			fl = append(fl, fmt.Sprintf("set%d", p.Set))
		}
		sb.WriteString(strings.Join(fl, ","))
		sb.WriteString("(" + strings.Join(p.Requires, ",") + ")->" + strings.Join(p.Provides, ","))
	}
	sb.WriteString(" ; target " + d.Target)
	if len(d.Structs) > 0 {
		var ks []string
		for k := range d.Structs {
			ks = append(ks, k)
		}
		sort.Strings(ks)
		for _, k := range ks {
			sb.WriteString(" ; " + k + "{")
			for i, f := range d.Structs[k] {
				if i > 0 {
					sb.WriteString(",")
				}
				sb.WriteString(f.Name + " " + f.Type)
			}
			sb.WriteString("}")
		}
	}
	if d.Prelude != "" {
		sb.WriteString(" ; prelude=" + d.Prelude)
	}
	for k, v := range d.SetVar {
		if v {
			sb.WriteString(fmt.Sprintf(" ; set%d=var", k))
		}
	}
	for k, v := range d.SetNest {
		if v > 0 {
			sb.WriteString(fmt.Sprintf(" ; set%d in set%d", k, v))
		}
	}
	return sb.String()
}

func (d *Decl) order() []int {
	if len(d.Order) == len(d.Provs) {
		return d.Order
	}
	o := make([]int, len(d.Provs))
	for i := range o {
		o[i] = i
	}
	return o
}

// ID is a canonical id of the declaration (hash of its spec).
func (d *Decl) ID() string {
	h := sha256.Sum256([]byte(d.Spec()))
	return hex.EncodeToString(h[:])[:12]
}

// SemKey identifies the declared graph irrespective of Async marks, Set grouping and declaration
// order: declarations with equal SemKey must produce the same result (C02's metamorphic bucket).
func (d *Decl) SemKey() string {
	var parts []string
	for _, p := range d.Provs {
		parts = append(parts, fmt.Sprintf("%s/%d/%v(%s)->%s/%s", p.Name(), p.Kind, p.Fallible, strings.Join(p.Requires, ","), strings.Join(p.Provides, ","), p.Bind))
	}
	sort.Strings(parts)
	return strings.Join(parts, "|") + ";" + d.Target
}

func (d *Decl) Clone() *Decl {
	c := *d
	c.Provs = make([]*Prov, len(d.Provs))
	for i, p := range d.Provs {
		q := *p
		q.Requires = append([]string(nil), p.Requires...)
		q.Provides = append([]string(nil), p.Provides...)
		c.Provs[i] = &q
	}
	c.Order = append([]int(nil), d.Order...)
	c.Structs = map[string][]Field{}
	for k, v := range d.Structs {
		c.Structs[k] = append([]Field(nil), v...)
	}
	c.SetVar = map[int]bool{}
	for k, v := range d.SetVar {
		c.SetVar[k] = v
	}
	c.SetNest = map[int]int{}
	for k, v := range d.SetNest {
		c.SetNest[k] = v
	}
	return &c
}

// ---------------------------------------------------------------------------------------------
// Reference semantics.

type supplier struct {
	prov   *Prov
	result int    // index into Provides (Func/Value)
	field  string // non-empty: field read of the struct supplied for prov.Provides[0]
}

// Ref is what the documentation says the declaration means.
type Ref struct {
	Refuse       string   // non-empty: the declaration must be refused; the reason
	RefuseTypes  []string // types the diagnostic should name
	Ambiguous    bool     // defect only among unneeded providers: either answer accepted
	Term         string   // expected result term
	Params       []string // argument types (multiset; ctx excluded)
	HasCtx       bool
	CtxFirst     bool
	HasErr       bool
	Needed       []int               // provider ids in a dependency order (Func providers only, i.e. those with a call)
	ArgTerms     map[int][]string    // provider id -> expected argument terms
	Deps         map[int][]int       // provider id -> ids of providers (with calls) it directly depends on (through fields/binds too)
	TransDeps    map[int]map[int]bool // transitive closure
	InputFree    []int               // needed Async providers without any parameter
	NeededAsync  bool
	NeededValues []int
	sup          map[string]supplier
}

func isPtr(t string) bool { return strings.HasPrefix(t, "*") }

// Reference evaluates the declaration.
func Reference(d *Decl) *Ref {
	r := &Ref{ArgTerms: map[int][]string{}, Deps: map[int][]int{}, TransDeps: map[int]map[int]bool{}}
	sup := map[string]supplier{}
	all := map[string][]supplier{}
	add := func(t string, s supplier) {
		for _, o := range all[t] {
			if o.prov == s.prov && o.field == "" && s.field == "" {
				return // the same provider supplying a type twice (concrete + bound interface) is one supplier
			}
		}
		all[t] = append(all[t], s)
		if _, ok := sup[t]; !ok {
			sup[t] = s
		}
	}
	for _, idx := range d.order() {
		p := d.Provs[idx]
		if p.Kind == Struct {
			continue
		}
		for i, t := range p.Provides {
			add(t, supplier{prov: p, result: i})
		}
		if p.Bind != "" {
			// the interface is supplied by the first result that implements it
			for i, t := range p.Provides {
				if implements(t, p.Bind) {
					add(p.Bind, supplier{prov: p, result: i})
					break
				}
			}
		}
	}
	orphan := ""
	for _, idx := range d.order() {
		p := d.Provs[idx]
		if p.Kind != Struct {
			continue
		}
		st := p.Provides[0]
		if _, ok := sup[st]; !ok {
			if orphan == "" {
				orphan = st
			}
			continue
		}
		for _, f := range d.Structs[strings.TrimPrefix(st, "*")] {
			if !isExported(f.Name) {
				continue
			}
			add(Canon(f.Type), supplier{prov: p, field: f.Name})
		}
	}
	r.sup = sup

	// needed set by reachability from the target
	needed := map[*Prov]bool{}
	params := []string{}
	paramSeen := map[string]bool{}
	var order []*Prov
	state := map[*Prov]int{}
	var stack []*Prov
	var cyc []string
	var visitType func(t string) bool
	var visitProv func(p *Prov) bool
	usedTypes := map[string]bool{}
	visitType = func(t string) bool {
		usedTypes[t] = true
		s, ok := sup[t]
		if !ok {
			if t == "ctx" {
				r.HasCtx = true
			} else if !paramSeen[t] {
				paramSeen[t] = true
				params = append(params, t)
			}
			return true
		}
		return visitProv(s.prov)
	}
	visitProv = func(p *Prov) bool {
		switch state[p] {
		case 1:
			for i := len(stack) - 1; i >= 0; i-- {
				cyc = append(cyc, stack[i].Provides[0])
				if stack[i] == p {
					break
				}
			}
			return false
		case 2:
			return true
		}
		state[p] = 1
		needed[p] = true
		stack = append(stack, p)
		for _, t := range p.Requires {
			if !visitType(t) {
				return false
			}
		}
		if p.Kind == Struct {
			if !visitType(p.Provides[0]) {
				return false
			}
		}
		stack = stack[:len(stack)-1]
		state[p] = 2
		order = append(order, p)
		return true
	}
	okAcyclic := visitType(d.Target)

	// Refusal rules. The statement speaks about the providers reachable from the requested type; the
	// implementation checks duplicates and orphans over the whole provider list. A defect that does
	// not involve a needed provider is therefore ambiguous (either answer is accepted).
	var dupTs []string
	dupNeeded := false
	for t, ss := range all {
		if len(ss) < 2 {
			continue
		}
		dupTs = append(dupTs, t)
		n := 0
		for _, s := range ss {
			if needed[s.prov] {
				n++
			}
		}
		if n >= 2 || usedTypes[t] {
			dupNeeded = true
		}
	}
	if len(dupTs) > 0 {
		sort.Strings(dupTs)
		r.Refuse = "duplicate supplier"
		r.RefuseTypes = dupTs
		r.Ambiguous = !dupNeeded || !okAcyclic
		return r
	}
	if orphan != "" {
		r.Refuse = "struct expansion without source"
		r.RefuseTypes = []string{orphan}
		// needed only in the sense that the Struct provider is listed; nobody can reach an orphan
		// expansion through types (its fields become arguments), so either answer is accepted unless
		// a needed provider requires one of its field types.
		r.Ambiguous = true
		for _, f := range d.Structs[strings.TrimPrefix(orphan, "*")] {
			if paramSeen[Canon(f.Type)] {
				r.Ambiguous = false
			}
		}
		return r
	}
	if !okAcyclic {
		r.Refuse = "cycle"
		r.RefuseTypes = cyc
		return r
	}

	// evaluation
	memo := map[string]string{}
	var term func(t string) string
	provTerm := map[*Prov]string{}
	var callTerm func(p *Prov) string
	callTerm = func(p *Prov) string {
		if s, ok := provTerm[p]; ok {
			return s
		}
		var s string
		switch p.Kind {
		case Value:
			s = "val:" + p.Name()
		case Func:
			args := make([]string, len(p.Requires))
			for i, t := range p.Requires {
				args[i] = term(t)
			}
			r.ArgTerms[p.ID] = args
			s = p.Name() + "(" + strings.Join(args, ",") + ")"
		}
		provTerm[p] = s
		return s
	}
	term = func(t string) string {
		if s, ok := memo[t]; ok {
			return s
		}
		var out string
		s, ok := sup[t]
		switch {
		case !ok && t == "ctx":
			out = "ctx"
		case !ok:
			out = "arg:" + t
		case s.field != "":
			out = term(s.prov.Provides[0]) + "." + s.field
		default:
			out = callTerm(s.prov)
			if s.result > 0 {
				out += fmt.Sprintf("#%d", s.result)
			}
		}
		memo[t] = out
		return out
	}
	r.Term = term(d.Target)
	r.Params = params

	// direct deps between providers that have calls (Func), looking through Struct expansions
	var callers func(t string, acc map[int]bool)
	callers = func(t string, acc map[int]bool) {
		s, ok := sup[t]
		if !ok {
			return
		}
		switch {
		case s.field != "":
			callers(s.prov.Provides[0], acc)
		case s.prov.Kind == Func:
			acc[s.prov.ID] = true
		}
	}
	for _, p := range order {
		if p.Kind == Value {
			r.NeededValues = append(r.NeededValues, p.ID)
		}
		if p.Kind != Func {
			continue
		}
		r.Needed = append(r.Needed, p.ID)
		acc := map[int]bool{}
		for _, t := range p.Requires {
			callers(t, acc)
		}
		var ds []int
		for k := range acc {
			ds = append(ds, k)
		}
		sort.Ints(ds)
		r.Deps[p.ID] = ds
		td := map[int]bool{}
		for _, k := range ds {
			td[k] = true
			for kk := range r.TransDeps[k] {
				td[kk] = true
			}
		}
		r.TransDeps[p.ID] = td
	}
	for _, p := range order {
		// Async only has a meaning for providers that are called; wrapping a Struct expansion in
		// Async is accepted by the type system, but a field read is not a call (the documentation
		// says field access is always synchronous), so it does not make the injector asynchronous.
		if p.Async && p.Kind == Func {
			r.NeededAsync = true
		}
		if p.Fallible {
			r.HasErr = true
		}
		if p.Async && p.Kind == Func && len(p.Requires) == 0 {
			r.InputFree = append(r.InputFree, p.ID)
		}
	}
	if r.NeededAsync {
		r.HasCtx = true
		r.CtxFirst = true
	}
	return r
}

func isExported(n string) bool { return n != "" && n[0] >= 'A' && n[0] <= 'Z' }

// implements: interface I<k> is implemented exactly by *T<k> (marker method), see emit.go.
func implements(t, iface string) bool {
	return strings.HasPrefix(t, "*T") && strings.TrimPrefix(t, "*T") == strings.TrimPrefix(iface, "I")
}

// MustNotEnter returns the providers that must not be entered when the providers in failing fail:
// everything that depends, directly or transitively, on a failing provider.
func (r *Ref) MustNotEnter(failing map[int]bool) map[int]bool {
	out := map[int]bool{}
	for _, id := range r.Needed {
		for f := range failing {
			if r.TransDeps[id][f] {
				out[id] = true
			}
		}
	}
	return out
}
