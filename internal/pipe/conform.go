package pipe

import (
	"bufio"
	"bytes"
	"encoding/json"
	"fmt"
	"os"
	"os/exec"
	"path/filepath"
	"sort"
	"strconv"
	"strings"

	"verif/conform"
	"verif/explore"
	"verif/internal/rewrite"
)

// BuildFreeRunner builds (once per corpus) the race-enabled binary that links the UNINSTRUMENTED
// generated files of every runnable case that starts goroutines.
func (e *Env) BuildFreeRunner(c *Corpus) (string, error) {
	bin := filepath.Join(c.Dir, "frunner")
	unlock := e.Lock("frunner-" + c.Tier)
	defer unlock()
	if _, err := os.Stat(bin); err == nil {
		return bin, nil
	}
	// a bounded, evenly spread subset: small concurrent cases (their unpruned trace sets stay enumerable)
	var cand, large []*Item
	for _, it := range c.Items {
		g := 0
		for _, f := range it.Funcs {
			g += f.Goroutines
		}
		if it.Runnable && g >= 1 && g <= 2 && len(it.Decl.Provs) <= 5 {
			cand = append(cand, it)
		}
		if it.Runnable && it.Decl.Large {
			large = append(large, it)
		}
	}
	limit := 240
	if c.Tier == "thorough" {
		limit = 1200
	}
	include := map[string]bool{}
	step := 1
	if len(cand) > limit {
		step = len(cand) / limit
	}
	for i := 0; i < len(cand); i += step {
		include[cand[i].Pkg] = true
	}
	// a spread of the large shapes (up to a dozen providers, up to ten goroutines) as well
	lstep := 1
	if len(large) > 16 {
		lstep = len(large) / 16
	}
	for i := 0; i < len(large); i += lstep {
		include[large[i].Pkg] = true
	}
	var main strings.Builder
	main.WriteString("package main\n\nimport (\n\t\"verif/conform\"\n\n")
	n := 0
	for _, it := range c.Items {
		g := 0
		for _, f := range it.Funcs {
			g += f.Goroutines
		}
		if !it.Runnable || g == 0 || !include[it.Pkg] {
			continue
		}
		dir := filepath.Join(c.Dir, "f", it.Pkg)
		if err := os.MkdirAll(dir, 0o755); err != nil {
			return "", err
		}
		user, _ := os.ReadFile(c.SrcPath(it))
		band, _ := os.ReadFile(c.BandPath(it))
		// the harness only needs signatures and imports: take them from the original file
		res, err := rewrite.File("p_band.go", band, "golang.org/x/sync/errgroup")
		if err != nil {
			continue
		}
		_ = os.WriteFile(filepath.Join(dir, "p.go"), user, 0o644)
		_ = os.WriteFile(filepath.Join(dir, "p_band.go"), band, 0o644) // byte-identical generated file
		_ = os.WriteFile(filepath.Join(dir, "zz_harness.go"), []byte(Harness(it.Pkg, it.Pkg, res)), 0o644)
		fmt.Fprintf(&main, "\t_ %s\n", strconv.Quote("corpus/f/"+it.Pkg))
		n++
	}
	main.WriteString(")\n\nfunc main() { conform.Main() }\n")
	if n == 0 {
		return "", fmt.Errorf("no case with goroutines")
	}
	if err := os.MkdirAll(filepath.Join(c.Dir, "frun"), 0o755); err != nil {
		return "", err
	}
	if err := os.WriteFile(filepath.Join(c.Dir, "frun", "main.go"), []byte(main.String()), 0o644); err != nil {
		return "", err
	}
	cmd := exec.Command(GoBin, "build", "-buildvcs=false", "-race", "-o", bin+".tmp", "./frun")
	cmd.Dir = c.Dir
	cmd.Env = append(BulkGoEnv(), "CGO_ENABLED=1")
	if out, err := cmd.CombinedOutput(); err != nil {
		return "", fmt.Errorf("race build of the free-running runner: %v\n%s", err, tail(string(out), 3000))
	}
	return bin, os.Rename(bin+".tmp", bin)
}

// ConformResult summarises one conformance pass.
type ConformResult struct {
	Cases        int
	TraceSets    int
	Forced       int
	Validated    int
	Inconclusive int
	SkippedCap   int
	Mismatches   []string
	RaceReports  []string
	Samples      []map[string]any
}

func multisetSubset(a, b []string) bool {
	cnt := map[string]int{}
	for _, x := range b {
		cnt[x]++
	}
	for _, x := range a {
		cnt[x]--
		if cnt[x] < 0 {
			return false
		}
	}
	return true
}

func hasPrefix(a, p []string) bool {
	if len(a) < len(p) {
		return false
	}
	for i := range p {
		if a[i] != p[i] {
			return false
		}
	}
	return true
}

// Conform enumerates (without pruning) all provider-level traces of the selected cases under the
// scenario families, forces a spread of them on the real injector and checks that what the real run
// did is among what the explorer produced.
func (e *Env) Conform(c *Corpus, pkgs []string, families string, thorough bool, perSet int) (*ConformResult, error) {
	res := &ConformResult{Cases: len(pkgs)}
	if len(pkgs) == 0 {
		return res, nil
	}
	bin, err := e.BuildFreeRunner(c)
	if err != nil {
		return nil, err
	}
	// 1. trace sets from the instrumented runner, no pruning
	runners := c.Runners()
	const per = 8
	shards := per * len(runners)
	var sets []*explore.TraceSet
	outs := make([]string, shards)
	errs := make([]error, shards)
	Parallel(shards, 16, func(j int) {
		i := j % per
		outs[j] = filepath.Join(c.Dir, fmt.Sprintf("traces-%d-%d.jsonl", os.Getpid(), j))
		args := []string{"-cases", c.Cases, "-scenarios", families, "-traces", strings.Join(pkgs, ","), "-shard", strconv.Itoa(i), "-shards", strconv.Itoa(per), "-max", "20000", "-out", outs[j]}
		if thorough {
			args = append(args, "-thorough")
		}
		cmd := exec.Command(runners[j/per], args...)
		var stderr bytes.Buffer
		cmd.Stderr = &stderr
		if err := cmd.Run(); err != nil {
			errs[j] = fmt.Errorf("trace enumeration shard %d: %v %s", j, err, tail(stderr.String(), 2000))
		}
	})
	for i, p := range outs {
		if errs[i] != nil {
			return nil, errs[i]
		}
		f, err := os.Open(p)
		if err != nil {
			return nil, err
		}
		dec := json.NewDecoder(f)
		for dec.More() {
			var ts explore.TraceSet
			if err := dec.Decode(&ts); err != nil {
				break
			}
			sets = append(sets, &ts)
		}
		f.Close()
		_ = os.Remove(p)
	}
	sort.Slice(sets, func(i, j int) bool {
		if sets[i].Pkg != sets[j].Pkg {
			return sets[i].Pkg < sets[j].Pkg
		}
		return sets[i].Scenario < sets[j].Scenario
	})
	// 2. jobs
	byKey := map[string]*explore.TraceSet{}
	jobsPath := filepath.Join(c.Dir, fmt.Sprintf("cjobs-%d.jsonl", os.Getpid()))
	jf, err := os.Create(jobsPath)
	if err != nil {
		return nil, err
	}
	jw := bufio.NewWriter(jf)
	for _, ts := range sets {
		res.TraceSets++
		if ts.Capped || (ts.POR && ts.Scenario != "free") {
			// (a set with one representative per trace only supports forcing COMPLETE orders: after a cancellation or
			// a failure the real run is merely observed, and its continuation may be another trace's representative)
			res.SkippedCap++
			continue
		}
		byKey[ts.Pkg+"|"+ts.Scenario] = ts
		// spread: first, last and evenly spaced traces that return (a forced deadlock only costs time)
		var cand []explore.Trace
		for _, t := range ts.Traces {
			if t.Returned {
				cand = append(cand, t)
			}
		}
		step := 1
		if len(cand) > perSet {
			step = len(cand) / perSet
		}
		for i := 0; i < len(cand); i += step {
			b, _ := json.Marshal(conform.Job{Pkg: ts.Pkg, Scenario: ts.Scenario, Fail: ts.Fail, Proj: cand[i].Proj})
			jw.Write(b)
			jw.WriteByte('\n')
			res.Forced++
		}
	}
	jw.Flush()
	jf.Close()
	defer os.Remove(jobsPath)
	// 3. real runs (one process; the race detector reports to stderr)
	obsPath := filepath.Join(c.Dir, fmt.Sprintf("cobs-%d.jsonl", os.Getpid()))
	defer os.Remove(obsPath)
	cmd := exec.Command(bin, "-jobs", jobsPath, "-out", obsPath)
	cmd.Env = append(os.Environ(), "GORACE=halt_on_error=0 exitcode=0")
	var stderr bytes.Buffer
	cmd.Stderr = &stderr
	if err := cmd.Run(); err != nil {
		return nil, fmt.Errorf("free-running runner: %v\n%s", err, tail(stderr.String(), 3000))
	}
	// race reports, attributed to the case that was running
	cur := ""
	for _, l := range strings.Split(stderr.String(), "\n") {
		if strings.HasPrefix(l, "CONFORM-CASE ") {
			cur = strings.TrimPrefix(l, "CONFORM-CASE ")
		}
		if strings.Contains(l, "WARNING: DATA RACE") {
			k := strings.ReplaceAll(cur, " ", "|")
			if ts := byKey[k]; ts != nil && !ts.Race {
				res.RaceReports = append(res.RaceReports, cur)
			}
		}
	}
	of, err := os.Open(obsPath)
	if err != nil {
		return nil, err
	}
	defer of.Close()
	dec := json.NewDecoder(of)
	for dec.More() {
		var o conform.Obs
		if err := dec.Decode(&o); err != nil {
			break
		}
		ts := byKey[o.Pkg+"|"+o.Scenario]
		if ts == nil {
			continue
		}
		if o.Inconclusive != "" {
			res.Inconclusive++
			continue
		}
		rest := o.Proj[len(o.Forced):]
		ok := false
		for _, t := range ts.Traces {
			if t.Returned != o.Returned || (o.Returned && (t.Term != o.Term || t.Err != o.Err)) {
				continue
			}
			if hasPrefix(t.Proj, o.Forced) && multisetSubset(rest, t.Proj[len(o.Forced):]) {
				ok = true
				break
			}
		}
		if ok {
			res.Validated++
			if len(res.Samples) < 2 {
				res.Samples = append(res.Samples, map[string]any{"case": c.ByPkg[o.Pkg].Spec, "scenario": o.Scenario, "forced_prefix": o.Forced, "observed_trace": o.Proj, "result": o.Term, "error": o.Err})
			}
		} else if !o.Returned {
			res.Inconclusive++ // no wall-clock oracle may raise an alarm
		} else {
			res.Mismatches = append(res.Mismatches, fmt.Sprintf("%s [%s]: real run did %v => %q/%q, which no explored execution does (%d explored traces)", c.ByPkg[o.Pkg].Spec, o.Scenario, o.Proj, o.Term, o.Err, len(ts.Traces)))
		}
	}
	return res, nil
}

// FreePkgs lists the packages linked into the free-running runner (after BuildFreeRunner).
func (c *Corpus) FreePkgs() []string {
	ents, _ := os.ReadDir(filepath.Join(c.Dir, "f"))
	var out []string
	for _, e := range ents {
		if e.IsDir() {
			out = append(out, e.Name())
		}
	}
	sort.Strings(out)
	return out
}
