package main

import (
	"crypto/sha256"
	"encoding/hex"
	"encoding/json"
	"fmt"
	"os"
	"os/exec"
	"path/filepath"
	"regexp"
	"sort"
	"strconv"
	"strings"
	"time"

	"verif/internal/pipe"
)

// Finding is one candidate violation produced by a check, before classification against
// /verif/known_findings.json.
type Finding struct {
	Property string         `json:"property"`
	Kind     string         `json:"kind"`
	Site     string         `json:"site,omitempty"`
	Pre      string         `json:"precondition,omitempty"` // canonical precondition string computed by the check
	Detail   string         `json:"detail"`
	Witness  string         `json:"witness"` // declaration spec / input / history that fails
	Replay   map[string]any `json:"replay,omitempty"`
}

// KnownEntry is one line of known_findings.json: a mechanism signature, not "property X fails".
type KnownEntry struct {
	Property     string `json:"property"`
	Status       string `json:"status"` // "known" (suppresses, prints KNOWN-FINDING) or "fixed" (suppresses nothing)
	Kind         string `json:"kind"`
	Site         string `json:"site,omitempty"`         // regexp, anchored
	Precondition string `json:"precondition,omitempty"` // regexp, anchored
	Detail       string `json:"detail_regexp,omitempty"`
	What         string `json:"what"`
	Witness      string `json:"witness,omitempty"`
	Commit       string `json:"commit,omitempty"`
	// WitnessSet names a file under /verif/known/ listing (one 12-hex sha256 prefix per line) the exact inputs
	// (Finding.Witness strings) for which this mechanism fails on the unchanged tree. When set, the entry only
	// covers those inputs: the same mechanism on any OTHER input is reported as a violation.
	WitnessSet string `json:"witness_set,omitempty"`
	witnesses  map[string]bool
}

func witnessHash(w string) string {
	h := sha256.Sum256([]byte(w))
	return hex.EncodeToString(h[:])[:12]
}

func loadWitnessSet(name string) map[string]bool {
	m := map[string]bool{}
	b, err := os.ReadFile(filepath.Join("/verif/known", name))
	if err != nil {
		return m
	}
	for _, l := range strings.Split(string(b), "\n") {
		if l = strings.TrimSpace(l); l != "" {
			m[l] = true
		}
	}
	return m
}

func loadKnown() []KnownEntry {
	b, err := os.ReadFile("/verif/known_findings.json")
	if err != nil {
		return nil
	}
	var f struct {
		Findings []KnownEntry `json:"findings"`
	}
	if err := json.Unmarshal(b, &f); err != nil {
		fmt.Println("known_findings.json is not valid JSON:", err)
		os.Exit(2)
	}
	for i := range f.Findings {
		if f.Findings[i].WitnessSet != "" {
			f.Findings[i].witnesses = loadWitnessSet(f.Findings[i].WitnessSet)
		}
	}
	return f.Findings
}

func anchored(re, s string) bool {
	if re == "" {
		return true
	}
	ok, err := regexp.MatchString("^(?:"+re+")$", s)
	return err == nil && ok
}

// mechanism reports whether the finding has the entry's mechanism signature (kind, site, precondition).
func (k *KnownEntry) mechanism(f *Finding) bool {
	return k.Status == "known" && k.Property == f.Property && k.Kind == f.Kind && anchored(k.Site, f.Site) && anchored(k.Precondition, f.Pre) &&
		(k.Detail == "" || regexp.MustCompile(k.Detail).MatchString(f.Detail))
}

// matches = mechanism signature AND (when the entry carries a witness set) the failing input is one of the listed ones.
func (k *KnownEntry) matches(f *Finding) bool {
	if !k.mechanism(f) {
		return false
	}
	if k.WitnessSet == "" || refreshKnown() {
		return true
	}
	return k.witnesses[witnessHash(f.Witness)]
}

// refreshKnown: maintenance mode (VERIF_KNOWN_REFRESH=1, never used by a registered check): the witness sets are
// re-recorded from a run on the unchanged tree instead of being consulted.
func refreshKnown() bool { return os.Getenv("VERIF_KNOWN_REFRESH") == "1" }


// RunCtx carries one check run.
type RunCtx struct {
	ID       string
	Tier     string
	Seed     int64
	Start    time.Time
	Level    string
	Coverage map[string]any
	Assume   []string
	Findings []Finding
	Notes    []string
	// GroupByPre makes the precondition part of the violation grouping key (dynamic properties).
	GroupByPre bool
}

func (rc *RunCtx) Add(f Finding) {
	f.Property = rc.ID
	rc.Findings = append(rc.Findings, f)
}

func (rc *RunCtx) Thorough() bool { return rc.Tier == "thorough" }

// Unsuppressed counts the findings no known-findings entry covers (they will be reported as violations).
func (rc *RunCtx) Unsuppressed() int {
	known := loadKnown()
	n := 0
	for i := range rc.Findings {
		f := rc.Findings[i]
		f.Property = rc.ID
		hit := false
		for j := range known {
			if known[j].matches(&f) {
				hit = true
				break
			}
		}
		if !hit {
			n++
		}
	}
	return n
}

// Finish classifies findings, prints the verdict lines, writes evidence and exits.
func (rc *RunCtx) Finish() {
	known := loadKnown()
	type agg struct {
		n       int
		witness string
	}
	knownHits := map[int]*agg{}
	var viol []Finding
	for i := range rc.Findings {
		f := &rc.Findings[i]
		hit := -1
		for j := range known {
			if known[j].matches(f) {
				hit = j
				break
			}
		}
		if hit >= 0 {
			a := knownHits[hit]
			if a == nil {
				a = &agg{witness: f.Witness}
				knownHits[hit] = a
			}
			a.n++
			continue
		}
		viol = append(viol, *f)
	}
	if refreshKnown() {
		rc.refreshWitnessSets(known)
	}
	var idx []int
	for j := range knownHits {
		idx = append(idx, j)
	}
	sort.Ints(idx)
	var knownLines []string
	for _, j := range idx {
		k := known[j]
		line := fmt.Sprintf("KNOWN-FINDING: property=%s %s [kind=%s site=%s pre=%s] (%d matching cases this run, e.g. %s)", rc.ID, k.What, k.Kind, k.Site, k.Precondition, knownHits[j].n, knownHits[j].witness)
		fmt.Println(line)
		knownLines = append(knownLines, line)
	}
	// group violations by mechanism so that the output stays readable; one replay file per group
	groups := map[string][]Finding{}
	var order []string
	for _, f := range viol {
		k := f.Kind + "|" + f.Site
		if rc.GroupByPre {
			k += "|" + f.Pre
		}
		if _, ok := groups[k]; !ok {
			order = append(order, k)
		}
		groups[k] = append(groups[k], f)
	}
	vdir := "/verif/work/violations"
	if old, _ := filepath.Glob(filepath.Join(vdir, rc.ID+"-*.json")); len(old) > 0 {
		for _, o := range old {
			_ = os.Remove(o)
		}
	}
	for _, k := range order {
		g := groups[k]
		f := g[0]
		_ = os.MkdirAll(vdir, 0o755)
		h := sha256.Sum256([]byte(rc.ID + k + f.Witness))
		path := filepath.Join(vdir, fmt.Sprintf("%s-%s.json", rc.ID, hex.EncodeToString(h[:])[:10]))
		rep := map[string]any{"property": rc.ID, "tier": rc.Tier, "kind": f.Kind, "site": f.Site, "precondition": f.Pre, "detail": f.Detail, "witness": f.Witness, "cases_in_group": len(g), "replay": f.Replay}
		var others []string
		for _, o := range g[1:] {
			if len(others) < 20 {
				others = append(others, o.Witness)
			}
		}
		rep["other_witnesses"] = others
		pres := map[string]bool{}
		for _, o := range g {
			pres[o.Pre] = true
		}
		var pl []string
		for p := range pres {
			pl = append(pl, p)
		}
		sort.Strings(pl)
		if len(pl) > 60 {
			pl = pl[:60]
		}
		rep["preconditions_in_group"] = pl
		b, _ := json.MarshalIndent(rep, "", " ")
		_ = os.WriteFile(path, b, 0o644)
		fmt.Printf("VIOLATION property=%s replay=%s\n", rc.ID, path)
		fmt.Printf("  kind=%s site=%s pre=%s cases=%d\n  %s\n  witness: %s\n", f.Kind, f.Site, f.Pre, len(g), f.Detail, f.Witness)
	}
	for _, n := range rc.Notes {
		fmt.Println("note:", n)
	}
	if rc.Coverage == nil {
		rc.Coverage = map[string]any{}
	}
	if knownLines == nil {
		knownLines = []string{}
	}
	rc.Coverage["known_findings_reported"] = knownLines
	ev := map[string]any{
		"property_id": rc.ID,
		"tier":        rc.Tier,
		"seed":        rc.Seed,
		"level":       rc.Level,
		"coverage":    rc.Coverage,
		"assumptions": rc.Assume,
		"wall_s":      time.Since(rc.Start).Seconds(),
		"violations":  len(order),
	}
	// evidence describes /repo itself; a run against a scratch worktree (VERIF_REPO, development only) writes elsewhere
	evDir := "/verif/evidence"
	if os.Getenv("VERIF_REPO") != "" {
		evDir = "/verif/work/scratch-evidence"
	}
	_ = os.MkdirAll(evDir, 0o755)
	b, _ := json.MarshalIndent(ev, "", " ")
	if err := os.WriteFile(filepath.Join(evDir, rc.ID+".json"), append(b, '\n'), 0o644); err != nil {
		fmt.Println("cannot write evidence:", err)
		os.Exit(2)
	}
	pipe.CleanupCLICache()
	fmt.Printf("%s tier=%s: %d finding(s), %d known, %d violation group(s); wall %.1fs\n", rc.ID, rc.Tier, len(rc.Findings), len(rc.Findings)-len(viol), len(order), time.Since(rc.Start).Seconds())
	if len(order) > 0 {
		os.Exit(1)
	}
	os.Exit(0)
}

func newRunCtx(id, tier string) *RunCtx {
	seed := int64(1)
	if s := os.Getenv("VERIF_SEED"); s != "" {
		if v, err := strconv.ParseInt(s, 10, 64); err == nil {
			seed = v
		}
	}
	return &RunCtx{ID: id, Tier: tier, Seed: seed, Start: time.Now(), Coverage: map[string]any{}}
}

func parseTier(args []string) string {
	tier := os.Getenv("VERIF_TIER")
	for i, a := range args {
		if a == "--tier" && i+1 < len(args) {
			tier = args[i+1]
		}
		if strings.HasPrefix(a, "--tier=") {
			tier = strings.TrimPrefix(a, "--tier=")
		}
	}
	if tier != "thorough" {
		tier = "quick"
	}
	return tier
}

// pick returns up to n elements of xs spread deterministically by seed.
func pick[T any](xs []T, n int, seed int64) []T {
	if len(xs) <= n {
		return xs
	}
	out := make([]T, 0, n)
	step := len(xs) / n
	off := int(seed) % step
	if off < 0 {
		off = -off
	}
	for i := 0; i < n; i++ {
		out = append(out, xs[(off+i*step)%len(xs)])
	}
	return out
}

// refreshWitnessSets merges the witnesses of this run's findings into the witness-set files of the entries whose
// mechanism they match. Only on a clean /repo, only on request.
func (rc *RunCtx) refreshWitnessSets(known []KnownEntry) {
	if os.Getenv("VERIF_REPO") != "" || gitDirty() {
		fmt.Println("known-refresh refused: /repo is not the clean committed tree")
		os.Exit(2)
	}
	add := map[string]map[string]bool{}
	for i := range rc.Findings {
		f := &rc.Findings[i]
		for j := range known {
			if known[j].WitnessSet != "" && known[j].mechanism(f) {
				if add[known[j].WitnessSet] == nil {
					add[known[j].WitnessSet] = map[string]bool{}
				}
				add[known[j].WitnessSet][witnessHash(f.Witness)] = true
				break
			}
		}
	}
	_ = os.MkdirAll("/verif/known", 0o755)
	for name, set := range add {
		old := loadWitnessSet(name)
		n0 := len(old)
		for h := range set {
			old[h] = true
		}
		var ls []string
		for h := range old {
			ls = append(ls, h)
		}
		sort.Strings(ls)
		_ = os.WriteFile(filepath.Join("/verif/known", name), []byte(strings.Join(ls, "\n")+"\n"), 0o644)
		fmt.Printf("known-refresh: %s: %d witnesses this run, %d -> %d in file\n", name, len(set), n0, len(ls))
	}
}

func gitDirty() bool {
	out, err := exec.Command("git", "-C", "/repo", "status", "--porcelain").Output()
	return err != nil || strings.TrimSpace(string(out)) != ""
}
