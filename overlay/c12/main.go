//go:build verif

// c12drv explores request histories of the real VarPool breadth-first (explicit-state search with
// deduplication on the allocator state) and checks on every transition that a generated name is
// fresh. It lives inside the kessoku module only through a build overlay.
package main

import (
	"encoding/json"
	"flag"
	"fmt"
	"go/token"
	"go/types"
	"os"
	"sort"
	"strings"

	"github.com/mazrean/kessoku/internal/kessoku"
)

type op struct {
	Kind string // reg | gen | gentype | genchan
	Arg  string
}

func (o op) String() string { return o.Kind + "(" + o.Arg + ")" }

type state struct {
	pool       *kessoku.VarPool
	issued     map[string]bool
	registered map[string]bool
	hist       []op
}

var pkg = types.NewPackage("example.com/p", "p")

func namedType(spec string) types.Type {
	ptr := strings.HasPrefix(spec, "*")
	name := strings.TrimPrefix(spec, "*")
	var t types.Type
	switch name {
	case "int":
		t = types.Typ[types.Int]
	case "string":
		t = types.Typ[types.String]
	case "Context":
		cp := types.NewPackage("context", "context")
		t = types.NewNamed(types.NewTypeName(token.NoPos, cp, "Context", nil), types.NewInterfaceType(nil, nil), nil)
	default:
		t = types.NewNamed(types.NewTypeName(token.NoPos, pkg, name, nil), types.NewStruct(nil, nil), nil)
	}
	if ptr {
		t = types.NewPointer(t)
	}
	return t
}

func canon(s *state, base map[string]int) string {
	snap := s.pool.VerifSnapshot()
	var parts []string
	for k, v := range snap {
		if base[k] != v {
			parts = append(parts, fmt.Sprintf("%s=%d", k, v))
		}
	}
	sort.Strings(parts)
	var is, rs []string
	for k := range s.issued {
		is = append(is, k)
	}
	for k := range s.registered {
		rs = append(rs, k)
	}
	sort.Strings(is)
	sort.Strings(rs)
	return strings.Join(parts, ",") + "|" + strings.Join(is, ",") + "|" + strings.Join(rs, ",")
}

type violation struct {
	History []string `json:"history"`
	Name    string   `json:"name"`
	Why     string   `json:"why"`
	Shape   string   `json:"shape"`
}

func main() {
	depth := flag.Int("depth", 4, "history depth")
	alpha := flag.String("alphabet", "full", "full | foo")
	flag.Parse()
	pre, kw := kessoku.VerifReserved()
	reserved := map[string]string{}
	for _, k := range pre {
		reserved[k] = "predeclared identifier"
	}
	for _, k := range kw {
		reserved[k] = "keyword"
	}
	bases := []string{"foo", "foo0", "foo1", "fooCh", "fooCh0", "err", "err0", "ctx", "eg", "len", "len0", "type", "string"}
	tys := []string{"Foo", "*Foo", "Foo0", "FooCh", "Err", "Context", "int", "string"}
	if *alpha == "foo" {
		bases = []string{"foo", "foo0", "foo1", "foo00", "fooCh", "fooCh0"}
		tys = []string{"Foo", "Foo0", "FooCh"}
	}
	var ops []op
	for _, b := range bases {
		ops = append(ops, op{"reg", b})
	}
	for _, b := range bases {
		ops = append(ops, op{"gen", b})
	}
	for _, t := range tys {
		ops = append(ops, op{"gentype", t}, op{"genchan", t})
	}
	init := &state{pool: kessoku.NewVarPool(), issued: map[string]bool{}, registered: map[string]bool{}}
	base := init.pool.VerifSnapshot()
	seen := map[string]bool{canon(init, base): true}
	frontier := []*state{init}
	states, transitions := 1, 0
	var viols []violation
	violSeen := map[string]bool{}
	for d := 0; d < *depth; d++ {
		var next []*state
		for _, s := range frontier {
			for _, o := range ops {
				transitions++
				n := &state{pool: s.pool.VerifClone(), issued: map[string]bool{}, registered: map[string]bool{}}
				for k := range s.issued {
					n.issued[k] = true
				}
				for k := range s.registered {
					n.registered[k] = true
				}
				n.hist = append(append([]op(nil), s.hist...), o)
				var name string
				switch o.Kind {
				case "reg":
					_ = n.pool.GetName(o.Arg) // what ParseFile does for package-level names: result discarded
					n.registered[o.Arg] = true
				case "gen":
					name = n.pool.GetName(o.Arg)
				case "gentype":
					name = n.pool.Get(namedType(o.Arg))
				case "genchan":
					name = n.pool.GetChannel(namedType(o.Arg))
				}
				if o.Kind != "reg" {
					why := ""
					switch {
					case reserved[name] != "":
						why = "is a Go " + reserved[name]
					case n.registered[name]:
						why = "is already declared at package level in the user's package"
					case n.issued[name]:
						why = "was already handed out earlier in this invocation"
					}
					if why != "" {
						var hs []string
						for _, h := range n.hist {
							hs = append(hs, h.String())
						}
						// shape: kinds of the requests that involve the colliding name's base
						shape := shapeOf(n.hist, name)
						key := shape + "|" + why
						if !violSeen[key] {
							violSeen[key] = true
							viols = append(viols, violation{History: hs, Name: name, Why: why, Shape: shape})
						}
					}
					n.issued[name] = true
				}
				k := canon(n, base)
				if !seen[k] {
					seen[k] = true
					states++
					next = append(next, n)
				}
			}
		}
		frontier = next
	}
	out := map[string]any{"states": states, "transitions": transitions, "depth": *depth, "alphabet": len(ops), "violations": viols, "ops": fmt.Sprint(ops)}
	b, _ := json.Marshal(out)
	os.Stdout.Write(b)
}

// shapeOf abstracts a history to the mechanism: which kinds of requests produced the colliding name.
func shapeOf(h []op, name string) string {
	var parts []string
	for _, o := range h {
		arg := o.Arg
		switch o.Kind {
		case "gentype", "genchan":
			arg = strings.TrimPrefix(arg, "*")
			if arg != "" {
				arg = strings.ToLower(arg[:1]) + arg[1:]
			}
			if o.Kind == "genchan" {
				arg += "Ch"
			}
		}
		rel := ""
		switch {
		case arg == name:
			rel = "name"
		case strings.HasPrefix(name, arg) && isDigits(name[len(arg):]):
			rel = "base"
		default:
			continue
		}
		k := "gen"
		if o.Kind == "reg" {
			k = "reg"
		}
		parts = append(parts, k+"("+rel+")")
	}
	return strings.Join(parts, ",")
}

func isDigits(s string) bool {
	if s == "" {
		return false
	}
	for _, c := range s {
		if c < '0' || c > '9' {
			return false
		}
	}
	return true
}
