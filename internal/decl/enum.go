package decl

import (
	"fmt"
	"strings"
)

// Base builds the base shape: provider k provides *Tk and requires *Tj for every j<k with edge (j,k)
// set in edges (bit index j + k*(k-1)/2 ... see edgeBit); the target is *T(n-1).
func Base(n int, edges uint, async, fallible uint) *Decl {
	d := &Decl{Name: "Init", Target: fmt.Sprintf("*T%d", n-1), Structs: map[string][]Field{}, SetVar: map[int]bool{}, SetNest: map[int]int{}}
	for k := 0; k < n; k++ {
		p := &Prov{ID: k, Kind: Func, Provides: []string{fmt.Sprintf("*T%d", k)}}
		for j := 0; j < k; j++ {
			if edges&(1<<edgeBit(j, k)) != 0 {
				p.Requires = append(p.Requires, fmt.Sprintf("*T%d", j))
			}
		}
		p.Async = async&(1<<k) != 0
		p.Fallible = fallible&(1<<k) != 0
		d.Provs = append(d.Provs, p)
	}
	d.Note = fmt.Sprintf("base n=%d edges=%b async=%b fallible=%b", n, edges, async, fallible)
	return d
}

func edgeBit(j, k int) uint { return uint(k*(k-1)/2 + j) }

func numEdges(n int) int { return n * (n - 1) / 2 }

// allReachable reports whether every provider of the base shape is needed for the target.
func allReachable(n int, edges uint) bool {
	for j := 0; j < n-1; j++ {
		has := false
		for k := j + 1; k < n; k++ {
			if edges&(1<<edgeBit(j, k)) != 0 {
				has = true
			}
		}
		if !has {
			return false
		}
	}
	return true
}

func bitsSet(x uint) int {
	c := 0
	for ; x != 0; x &= x - 1 {
		c++
	}
	return c
}

// roots counts providers without requirements.
func roots(n int, edges uint) int {
	c := 0
	for k := 0; k < n; k++ {
		has := false
		for j := 0; j < k; j++ {
			if edges&(1<<edgeBit(j, k)) != 0 {
				has = true
			}
		}
		if !has {
			c++
		}
	}
	return c
}

func maxInDegree(n int, edges uint) int {
	m := 0
	for k := 0; k < n; k++ {
		c := 0
		for j := 0; j < k; j++ {
			if edges&(1<<edgeBit(j, k)) != 0 {
				c++
			}
		}
		if c > m {
			m = c
		}
	}
	return m
}

func consumers(d *Decl, t string) []*Prov {
	var out []*Prov
	for _, p := range d.Provs {
		for _, r := range p.Requires {
			if r == t {
				out = append(out, p)
				break
			}
		}
	}
	return out
}

func replaceReq(p *Prov, from, to string) {
	for i, r := range p.Requires {
		if r == from {
			p.Requires[i] = to
		}
	}
}

// Variant is a feature toggle applied to one provider position of a base shape.
type Variant struct {
	Name  string
	Apply func(d *Decl, p int) *Decl // nil result: not applicable
}

func tname(k int) string { return fmt.Sprintf("*T%d", k) }
func uname(k int) string { return fmt.Sprintf("*U%d", k) }

// Variants is the ordered list of feature toggles (simplest first).
var Variants = []Variant{
	{"arg-append", func(d *Decl, p int) *Decl {
		c := d.Clone()
		c.Provs[p].Requires = append(c.Provs[p].Requires, "*A0")
		return c
	}},
	{"arg-prepend", func(d *Decl, p int) *Decl {
		c := d.Clone()
		c.Provs[p].Requires = append([]string{"*A0"}, c.Provs[p].Requires...)
		return c
	}},
	{"arg-shared", func(d *Decl, p int) *Decl {
		// provider p and the target's provider both take the same argument type; plus a value-typed argument
		if p == len(d.Provs)-1 {
			return nil
		}
		c := d.Clone()
		c.Provs[p].Requires = append(c.Provs[p].Requires, "*A0")
		last := c.Provs[len(c.Provs)-1]
		last.Requires = append([]string{"VA1", "*A0"}, last.Requires...)
		return c
	}},
	{"ctx-first", func(d *Decl, p int) *Decl {
		c := d.Clone()
		c.Provs[p].Requires = append([]string{"ctx"}, c.Provs[p].Requires...)
		return c
	}},
	{"ctx-last-with-arg", func(d *Decl, p int) *Decl {
		c := d.Clone()
		c.Provs[p].Requires = append(append([]string{"*A0"}, c.Provs[p].Requires...), "ctx")
		return c
	}},
	{"ctx-between-args", func(d *Decl, p int) *Decl {
		// unsupplied types discovered before AND after the provider's own context parameter
		c := d.Clone()
		c.Provs[p].Requires = append(append([]string{"*A0", "ctx"}, c.Provs[p].Requires...), "*A2")
		return c
	}},
	{"value", func(d *Decl, p int) *Decl {
		if len(d.Provs[p].Requires) > 0 || d.Provs[p].Fallible {
			return nil
		}
		c := d.Clone()
		c.Provs[p].Kind = Value
		c.Provs[p].Async = false
		return c
	}},
	{"valtype", func(d *Decl, p int) *Decl {
		c := d.Clone()
		v := fmt.Sprintf("V%d", p)
		for _, q := range c.Provs {
			replaceReq(q, tname(p), v)
		}
		c.Provs[p].Provides[0] = v
		if c.Target == tname(p) {
			c.Target = v
		}
		return c
	}},
	{"multi-unused", func(d *Decl, p int) *Decl {
		c := d.Clone()
		c.Provs[p].Provides = append(c.Provs[p].Provides, uname(p))
		return c
	}},
	{"multi-split", func(d *Decl, p int) *Decl {
		// second result consumed by the last consumer instead of the first result
		cs := consumers(d, tname(p))
		if len(cs) == 0 {
			return nil
		}
		c := d.Clone()
		c.Provs[p].Provides = append(c.Provs[p].Provides, uname(p))
		replaceReq(c.Provs[cs[len(cs)-1].ID], tname(p), uname(p))
		return c
	}},
	{"multi-both", func(d *Decl, p int) *Decl {
		cs := consumers(d, tname(p))
		if len(cs) == 0 {
			return nil
		}
		c := d.Clone()
		c.Provs[p].Provides = append(c.Provs[p].Provides, uname(p))
		q := c.Provs[cs[len(cs)-1].ID]
		q.Requires = append(q.Requires, uname(p))
		return c
	}},
	{"dup-param", func(d *Decl, p int) *Decl {
		// the last consumer takes the same type twice (two parameters fed by one producer result)
		cs := consumers(d, tname(p))
		if len(cs) == 0 {
			return nil
		}
		c := d.Clone()
		q := c.Provs[cs[len(cs)-1].ID]
		q.Requires = append([]string{tname(p)}, q.Requires...)
		return c
	}},
	{"multi-first-unused", func(d *Decl, p int) *Decl {
		// (U, T): the needed value is the second result
		c := d.Clone()
		c.Provs[p].Provides = []string{uname(p), tname(p)}
		return c
	}},
	{"bind", func(d *Decl, p int) *Decl {
		c := d.Clone()
		i := fmt.Sprintf("I%d", p)
		c.Provs[p].Bind = i
		for _, q := range c.Provs {
			replaceReq(q, tname(p), i)
		}
		if c.Target == tname(p) {
			c.Target = i
		}
		return c
	}},
	{"bind-outer", func(d *Decl, p int) *Decl {
		if !d.Provs[p].Async {
			return nil
		}
		c := d.Clone()
		i := fmt.Sprintf("I%d", p)
		c.Provs[p].Bind = i
		c.Provs[p].BindOuter = true
		for _, q := range c.Provs {
			replaceReq(q, tname(p), i)
		}
		if c.Target == tname(p) {
			c.Target = i
		}
		return c
	}},
	{"bind-half", func(d *Decl, p int) *Decl {
		// concrete type and interface both consumed
		cs := consumers(d, tname(p))
		if len(cs) < 1 {
			return nil
		}
		c := d.Clone()
		i := fmt.Sprintf("I%d", p)
		c.Provs[p].Bind = i
		q := c.Provs[cs[len(cs)-1].ID]
		q.Requires = append(q.Requires, i)
		return c
	}},
	{"struct-ptr", func(d *Decl, p int) *Decl {
		c := d.Clone()
		s := fmt.Sprintf("S%d", p)
		c.Structs[s] = []Field{{"F0", tname(p)}, {"F1", uname(p)}, {"hidden", uname(p)}}
		c.Provs[p].Provides[0] = "*" + s
		c.Provs = append(c.Provs, &Prov{ID: len(c.Provs), Kind: Struct, Provides: []string{"*" + s}})
		return c
	}},
	{"struct-field-alias", func(d *Decl, p int) *Decl {
		// as struct-ptr, but the field is declared with an ALIAS of the type its consumers ask for
		c := d.Clone()
		s := fmt.Sprintf("S%d", p)
		c.Structs[s] = []Field{{"F0", fmt.Sprintf("AT%d", p)}, {"F1", uname(p)}}
		c.Provs[p].Provides[0] = "*" + s
		c.Provs = append(c.Provs, &Prov{ID: len(c.Provs), Kind: Struct, Provides: []string{"*" + s}})
		return c
	}},
	{"struct-val", func(d *Decl, p int) *Decl {
		c := d.Clone()
		s := fmt.Sprintf("S%d", p)
		c.Structs[s] = []Field{{"F0", tname(p)}, {"F1", uname(p)}}
		c.Provs[p].Provides[0] = s
		c.Provs = append(c.Provs, &Prov{ID: len(c.Provs), Kind: Struct, Provides: []string{s}})
		return c
	}},
	{"struct-split", func(d *Decl, p int) *Decl {
		// last consumer takes the second field and the struct itself
		cs := consumers(d, tname(p))
		if len(cs) == 0 {
			return nil
		}
		c := d.Clone()
		s := fmt.Sprintf("S%d", p)
		c.Structs[s] = []Field{{"F0", tname(p)}, {"F1", uname(p)}}
		c.Provs[p].Provides[0] = "*" + s
		q := c.Provs[cs[len(cs)-1].ID]
		q.Requires = append(q.Requires, uname(p), "*"+s)
		c.Provs = append(c.Provs, &Prov{ID: len(c.Provs), Kind: Struct, Provides: []string{"*" + s}})
		return c
	}},
	{"struct-apart", func(d *Decl, p int) *Decl {
		// the struct as a whole is consumed by the first consumer, its fields by the LAST provider (the sink):
		// the struct and each field need their own completion signal, waited for at different points
		cs := consumers(d, tname(p))
		sink := len(d.Provs) - 1
		if len(cs) == 0 || cs[0].ID == sink || d.Provs[sink].Kind != Func {
			return nil
		}
		c := d.Clone()
		s := fmt.Sprintf("S%d", p)
		c.Structs[s] = []Field{{"F0", tname(p)}, {"F1", uname(p)}}
		c.Provs[p].Provides[0] = "*" + s
		replaceReq(c.Provs[cs[0].ID], tname(p), "*"+s)
		q := c.Provs[sink]
		has := false
		for _, r := range q.Requires {
			if r == tname(p) {
				has = true
			}
		}
		if !has {
			q.Requires = append(q.Requires, tname(p))
		}
		q.Requires = append(q.Requires, uname(p))
		c.Provs = append(c.Provs, &Prov{ID: len(c.Provs), Kind: Struct, Provides: []string{"*" + s}})
		return c
	}},
	{"struct-async", func(d *Decl, p int) *Decl {
		c := d.Clone()
		s := fmt.Sprintf("S%d", p)
		c.Structs[s] = []Field{{"F0", tname(p)}, {"F1", uname(p)}}
		c.Provs[p].Provides[0] = "*" + s
		c.Provs = append(c.Provs, &Prov{ID: len(c.Provs), Kind: Struct, Provides: []string{"*" + s}, Async: true})
		return c
	}},
	{"iface-arg", func(d *Decl, p int) *Decl {
		// the last consumer of provider p's value asks for the INTERFACE I<p>, which nobody binds in this
		// declaration: I<p> is an injector argument (and p is unneeded when that was its only consumer)
		cs := consumers(d, tname(p))
		if len(cs) == 0 || d.Provs[p].Bind != "" {
			return nil
		}
		c := d.Clone()
		replaceReq(c.Provs[cs[len(cs)-1].ID], tname(p), fmt.Sprintf("I%d", p))
		return c
	}},
	{"err-alias", func(d *Decl, p int) *Decl {
		// the provider's error result is declared through an alias of error
		if !d.Provs[p].Fallible {
			return nil
		}
		c := d.Clone()
		c.Provs[p].ErrAlias = true
		return c
	}},
	{"ctx-provided", func(d *Decl, p int) *Decl {
		// the context.Context provider p takes is supplied by ANOTHER PROVIDER of the declaration, not by the caller:
		// an injector with Async providers then holds two contexts (its own parameter and the provided one)
		for _, r := range d.Provs[p].Requires {
			if r == "ctx" {
				return nil
			}
		}
		c := d.Clone()
		c.Provs[p].Requires = append([]string{"ctx"}, c.Provs[p].Requires...)
		c.Provs = append(c.Provs, &Prov{ID: len(c.Provs), Kind: Func, Provides: []string{"ctx"}})
		return c
	}},
	{"struct-async-split", func(d *Decl, p int) *Decl {
		// Async(Struct[..]()) with BOTH fields consumed (the second one, and the struct itself, by the last consumer)
		cs := consumers(d, tname(p))
		if len(cs) == 0 {
			return nil
		}
		c := d.Clone()
		s := fmt.Sprintf("S%d", p)
		c.Structs[s] = []Field{{"F0", tname(p)}, {"F1", uname(p)}}
		c.Provs[p].Provides[0] = "*" + s
		q := c.Provs[cs[len(cs)-1].ID]
		q.Requires = append(q.Requires, uname(p))
		c.Provs = append(c.Provs, &Prov{ID: len(c.Provs), Kind: Struct, Provides: []string{"*" + s}, Async: true})
		return c
	}},
	{"unreachable-async-fallible", func(d *Decl, p int) *Decl {
		if p != 0 {
			return nil
		}
		c := d.Clone()
		n := len(c.Provs)
		c.Provs = append(c.Provs, &Prov{ID: n, Kind: Func, Provides: []string{fmt.Sprintf("*T%d", n)}, Async: true, Fallible: true, Requires: []string{"*A5", "ctx"}})
		return c
	}},
}

// Presentations are purely syntactic re-arrangements (declaration order and Set grouping).
var Presentations = []Variant{
	{"reverse", func(d *Decl, _ int) *Decl {
		c := d.Clone()
		n := len(c.Provs)
		c.Order = make([]int, n)
		for i := range c.Order {
			c.Order[i] = n - 1 - i
		}
		return c
	}},
	{"rotate", func(d *Decl, _ int) *Decl {
		n := len(d.Provs)
		if n < 3 {
			return nil
		}
		c := d.Clone()
		c.Order = make([]int, n)
		for i := range c.Order {
			c.Order[i] = (i + 1) % n
		}
		return c
	}},
	{"params-reversed", func(d *Decl, _ int) *Decl {
		// every provider lists its parameters in the opposite order: the generator discovers the graph breadth-first
		// in parameter order, so this changes discovery order (and with it pool assignment) but not the graph
		c := d.Clone()
		changed := false
		for _, p := range c.Provs {
			if len(p.Requires) > 1 {
				changed = true
				for i, j := 0, len(p.Requires)-1; i < j; i, j = i+1, j-1 {
					p.Requires[i], p.Requires[j] = p.Requires[j], p.Requires[i]
				}
			}
		}
		if !changed {
			return nil
		}
		return c
	}},
	{"one-set-inline", func(d *Decl, _ int) *Decl {
		c := d.Clone()
		for _, p := range c.Provs {
			p.Set = 1
		}
		return c
	}},
	{"one-set-var", func(d *Decl, _ int) *Decl {
		c := d.Clone()
		for _, p := range c.Provs {
			p.Set = 1
		}
		c.SetVar[1] = true
		return c
	}},
	{"two-sets", func(d *Decl, _ int) *Decl {
		if len(d.Provs) < 2 {
			return nil
		}
		c := d.Clone()
		for i, p := range c.Provs {
			p.Set = 1 + i%2
		}
		c.SetVar[2] = true
		return c
	}},
	{"nested-set-reversed", func(d *Decl, _ int) *Decl {
		if len(d.Provs) < 3 {
			return nil
		}
		c := d.Clone()
		n := len(c.Provs)
		c.Order = make([]int, n)
		for i := range c.Order {
			c.Order[i] = n - 1 - i
		}
		c.Provs[0].Set = 2
		c.Provs[1].Set = 1
		c.SetNest[2] = 1
		c.SetVar[2] = true
		return c
	}},
}

// AllPermutations yields every declaration order for n <= 3 providers.
func permutations(n int) [][]int {
	var out [][]int
	var rec func(cur []int, used uint)
	rec = func(cur []int, used uint) {
		if len(cur) == n {
			out = append(out, append([]int(nil), cur...))
			return
		}
		for i := 0; i < n; i++ {
			if used&(1<<i) == 0 {
				rec(append(cur, i), used|1<<i)
			}
		}
	}
	rec(nil, 0)
	return out
}

func fallibleChoices(n int, mode string) []uint {
	all := uint(1)<<n - 1
	switch mode {
	case "none":
		return []uint{0}
	case "none+all":
		return []uint{0, all}
	case "singles":
		out := []uint{0}
		for k := 0; k < n; k++ {
			out = append(out, 1<<k)
		}
		if n > 1 {
			out = append(out, all)
		}
		return out
	case "pairs":
		out := []uint{0}
		for k := 0; k < n; k++ {
			out = append(out, 1<<k)
		}
		for a := 0; a < n; a++ {
			for b := a + 1; b < n; b++ {
				out = append(out, 1<<a|1<<b)
			}
		}
		if n > 2 {
			out = append(out, all)
		}
		return out
	case "all":
		var out []uint
		for m := uint(0); m <= all; m++ {
			out = append(out, m)
		}
		return out
	}
	panic(mode)
}

// Universe enumerates the declaration corpus of a tier. The enumeration is exhaustive by size:
// see the product listed for each block.
func Universe(tier string) []*Decl {
	seen := map[string]bool{}
	var out []*Decl
	add := func(d *Decl, note string) {
		if d == nil {
			return
		}
		if note != "" {
			d.Note += " + " + note
		}
		id := d.ID()
		if seen[id] {
			return
		}
		seen[id] = true
		out = append(out, d)
	}
	thorough := tier == "thorough"

	// Block A: every DAG on n providers x every Async subset x fallible choices.
	maxN := 3
	if thorough {
		maxN = 4
	}
	for n := 1; n <= maxN; n++ {
		for e := uint(0); e < 1<<numEdges(n); e++ {
			for a := uint(0); a < 1<<n; a++ {
				fm := "none+all"
				if thorough || a != 0 {
					fm = "singles"
				}
				for _, f := range fallibleChoices(n, fm) {
					add(Base(n, e, a, f), "")
				}
			}
		}
	}
	// Block B: one size up, shapes in which every provider is needed (in-degree <= 3) x every Async subset
	// x {no fallible, all fallible}.
	nB := 4
	if thorough {
		nB = 5
	}
	for e := uint(0); e < 1<<numEdges(nB); e++ {
		if !allReachable(nB, e) || maxInDegree(nB, e) > 3 {
			continue
		}
		for a := uint(0); a < 1<<nB; a++ {
			if thorough && bitsSet(a) != 0 && bitsSet(a) != nB && bitsSet(a)%2 == 1 && a != 0b00111 && a != 0b00001 {
				continue // thorough, n=5: none, all, the even-sized Async subsets, the first root(s)
			}
			for _, f := range fallibleChoices(nB, "none+all") {
				add(Base(nB, e, a, f), "")
			}
		}
	}
	// Block E: wide shapes (at least three input-free roots, every provider needed), the ones that
	// make the injector start several goroutines: n=5 (quick) and n=5,6 (thorough).
	wide := func(n int, asyncs []uint, fmodes []uint) {
		for e := uint(0); e < 1<<numEdges(n); e++ {
			if !allReachable(n, e) || roots(n, e) < 3 || maxInDegree(n, e) > 4 {
				continue
			}
			for _, a := range asyncs {
				for _, f := range fmodes {
					add(Base(n, e, a, f), "wide")
				}
			}
		}
	}
	if !thorough {
		var as []uint
		for a := uint(0); a < 1<<5; a++ {
			if bitsSet(a&0b111) >= 2 { // at least two of the first three roots async
				as = append(as, a)
			}
		}
		wide(5, as, []uint{0})
		wide(5, []uint{0b11111, 0b00111, 0b10111, 0b01111}, []uint{0b11111, 0b00001, 0b01000})
	} else {
		wide(5, []uint{0b11111, 0b00111, 0b10111, 0b01111, 0b00011, 0b00110}, []uint{0, 0b11111, 0b00001, 0b01000})
		wide(6, []uint{0b111111, 0b000111, 0b101011}, []uint{0, 0b111111})
	}
	// Block C: feature toggles at every provider position of every all-needed shape.
	maxV := 3
	if thorough {
		maxV = 4
	}
	var basesC []*Decl
	for n := 1; n <= maxV; n++ {
		for e := uint(0); e < 1<<numEdges(n); e++ {
			if !allReachable(n, e) {
				continue
			}
			for a := uint(0); a < 1<<n; a++ {
				if n == 4 && a != 0 && a != 0b1111 && a != 0b0111 && a != 0b0110 && a != 0b0011 {
					continue // thorough, n=4: none, all, all-but-the-sink, the middle two, the first two
				}
				if !thorough && n == 3 && bitsSet(a) == 1 && a != 0b001 {
					continue // quick: of the single-Async masks only "first root Async" (next to a synchronous root it runs in a goroutine)
				}
				basesC = append(basesC, Base(n, e, a, 0))
				all := uint(1)<<n - 1
				if n >= 2 && (a == 0 || a == all || a == all>>1) {
					basesC = append(basesC, Base(n, e, a, all))
				}
			}
		}
	}
	// wide n=4 shapes (three roots -> combiner; root -> two -> combiner) so that toggles meet goroutines
	var wideC []*Decl
	for _, e := range []uint{1<<edgeBit(0, 3) | 1<<edgeBit(1, 3) | 1<<edgeBit(2, 3), 1<<edgeBit(0, 1) | 1<<edgeBit(0, 2) | 1<<edgeBit(1, 3) | 1<<edgeBit(2, 3)} {
		for _, a := range []uint{0b1111, 0b0111, 0b0110} {
			for _, f := range []uint{0, 0b1111} {
				wideC = append(wideC, Base(4, e, a, f))
			}
		}
	}
	for _, b := range append(append([]*Decl(nil), basesC...), wideC...) {
		for _, v := range Variants {
			for p := range b.Provs {
				add(v.Apply(b, p), fmt.Sprintf("%s@%d", v.Name, p))
			}
		}
	}
	// Block C4: the toggles that add nodes or channels of their own (Struct expansion, multi-value, Bind) at every
	// ROOT of every all-needed n=4 shape, roots Async (all of them / all but the first / only the toggled one),
	// the other providers synchronous: field reads and second results then live on a goroutine while their
	// consumers sit on the caller's thread or on another goroutine.
	if !thorough {
		own := map[string]bool{"struct-ptr": true, "struct-split": true, "struct-apart": true, "struct-async-split": true, "ctx-provided": true, "struct-async": true, "multi-split": true, "bind-half": true, "struct-val": true}
		for e := uint(0); e < 1<<numEdges(4); e++ {
			if !allReachable(4, e) || maxInDegree(4, e) > 3 {
				continue
			}
			var rootIdx []int
			var rootMask uint
			for k := 0; k < 4; k++ {
				isRoot := true
				for j := 0; j < k; j++ {
					if e&(1<<edgeBit(j, k)) != 0 {
						isRoot = false
					}
				}
				if isRoot {
					rootIdx = append(rootIdx, k)
					rootMask |= 1 << k
				}
			}
			if len(rootIdx) < 2 {
				continue
			}
			for _, p := range rootIdx {
				for _, a := range []uint{rootMask, rootMask &^ (1 << rootIdx[0]), 1 << p} {
					b := Base(4, e, a, 0)
					for _, v := range Variants {
						if own[v.Name] {
							add(v.Apply(b, p), fmt.Sprintf("%s@%d", v.Name, p))
						}
					}
				}
			}
		}
	}
	// Block F: toggles that create parallel edges between two providers (two results, one type twice,
	// concrete type + bound interface, field + struct) on every all-needed n=4 shape.
	multiEdge := map[string]bool{"multi-both": true, "dup-param": true, "bind-half": true, "struct-split": true}
	masksF := []uint{0b1111, 0b0110, 0b0011}
	if thorough {
		masksF = []uint{0b1111, 0b0110, 0b0011, 0b0101, 0b1010, 0b0111, 0b1100}
	}
	for e := uint(0); e < 1<<numEdges(4); e++ {
		if !allReachable(4, e) {
			continue
		}
		for _, a := range masksF {
			b := Base(4, e, a, 0)
			for _, v := range Variants {
				if !multiEdge[v.Name] {
					continue
				}
				for p := range b.Provs {
					add(v.Apply(b, p), fmt.Sprintf("%s@%d", v.Name, p))
				}
			}
		}
	}
	// Block F5: the same parallel-edge toggles at the first root of n=5 shapes with at least two roots
	// (so that a second thread exists), roots Async. quick: two toggles; thorough: all four, all positions.
	for e := uint(0); e < 1<<numEdges(5); e++ {
		if !allReachable(5, e) || roots(5, e) < 2 || maxInDegree(5, e) > 3 {
			continue
		}
		var rootMask uint
		for k := 0; k < 5; k++ {
			isRoot := true
			for j := 0; j < k; j++ {
				if e&(1<<edgeBit(j, k)) != 0 {
					isRoot = false
				}
			}
			if isRoot {
				rootMask |= 1 << k
			}
		}
		b := Base(5, e, rootMask, 0)
		for _, v := range Variants {
			if !multiEdge[v.Name] {
				continue
			}
			if !thorough && v.Name != "multi-both" && v.Name != "dup-param" {
				continue
			}
			for p := range b.Provs {
				if !thorough && p != 0 {
					continue
				}
				add(v.Apply(b, p), fmt.Sprintf("%s@%d", v.Name, p))
			}
		}
	}
	// Block G: several injectors per file / a package-level identifier called ctx: the context
	// parameter of the injector under test is then named ctx0. Applied to context-taking providers
	// in concurrent shapes.
	var basesG []*Decl
	basesG = append(basesG, wideC...)
	for _, b := range basesC {
		if len(b.Provs) == 3 && b.Provs[0].Async && b.Provs[1].Async {
			basesG = append(basesG, b)
		}
	}
	for _, b := range basesG {
		for _, pre := range []string{"ctx-injector", "pkg-ident-ctx", "async-injector"} {
			c := b.Clone()
			c.Prelude = pre
			add(c, pre)
			for _, v := range Variants {
				if v.Name != "ctx-first" && v.Name != "ctx-last-with-arg" && v.Name != "ctx-between-args" {
					continue
				}
				for p := range b.Provs {
					d1 := v.Apply(b, p)
					if d1 == nil {
						continue
					}
					d1.Prelude = pre
					add(d1, fmt.Sprintf("%s@%d+%s", v.Name, p, pre))
				}
			}
		}
	}
	// Block H: twin injectors. An earlier injector of the same file is declared over the SAME provider functions,
	// wrapped differently (all Async / none Async / additionally bound to an interface / not bound). The injector
	// under test must not be influenced by how an earlier declaration wrapped a provider.
	for _, b := range basesC {
		if len(b.Provs) > 3 {
			continue
		}
		nAsync := 0
		for _, p := range b.Provs {
			if p.Async {
				nAsync++
			}
		}
		var cands []*Decl
		cands = append(cands, b)
		for _, vn := range []string{"iface-arg", "bind", "bind-half", "arg-append", "struct-ptr"} {
			for _, v := range Variants {
				if v.Name != vn {
					continue
				}
				for p := range b.Provs {
					if !thorough && p != 0 && vn != "iface-arg" {
						continue
					}
					if d1 := v.Apply(b, p); d1 != nil {
						d1.Note += fmt.Sprintf(" + %s@%d", vn, p)
						cands = append(cands, d1)
					}
				}
			}
		}
		for _, c := range cands {
			for _, pre := range []string{"twin-all-async", "twin-all-sync", "twin-bind", "twin-unbound"} {
				hasBind := false
				for _, p := range c.Provs {
					if p.Bind != "" {
						hasBind = true
					}
				}
				switch {
				case pre == "twin-all-async" && nAsync == len(b.Provs):
					continue // identical to the injector under test
				case pre == "twin-all-sync" && nAsync == 0:
					continue
				case pre == "twin-unbound" && !hasBind:
					continue
				}
				t := c.Clone()
				t.Prelude = pre
				add(t, pre)
			}
		}
	}
	// Block L: large shapes (explored with partial-order reduction): k input-free roots, m middle providers that
	// each combine the first two roots, a sink that takes everything; chains; balanced trees; two-level fans.
	for _, l := range LargeShapes(thorough) {
		add(l, "large")
	}
	if thorough {
		// two toggles on n<=3 shapes
		for _, b := range basesC {
			if len(b.Provs) > 3 || b.Provs[0].Fallible {
				continue
			}
			// Async masks: none, all, and "all but the last" (the sink on the caller's thread)
			na := 0
			for _, p := range b.Provs {
				if p.Async {
					na++
				}
			}
			if !(na == 0 || na == len(b.Provs) || (na == len(b.Provs)-1 && !b.Provs[len(b.Provs)-1].Async)) {
				continue
			}
			for i, v1 := range Variants {
				for p1 := range b.Provs {
					d1 := v1.Apply(b, p1)
					if d1 == nil {
						continue
					}
					for _, v2 := range Variants[i+1:] {
						for p2 := range b.Provs {
							if p2 == p1 {
								continue
							}
							func() {
								defer func() { _ = recover() }()
								add(v2.Apply(d1, p2), fmt.Sprintf("%s@%d+%s@%d", v1.Name, p1, v2.Name, p2))
							}()
						}
					}
				}
			}
		}
	}
	// parameter order: the reversed-parameter presentation of every wide (E), C4 and large declaration built so far
	{
		var rev Variant
		for _, v := range Presentations {
			if v.Name == "params-reversed" {
				rev = v
			}
		}
		for _, d := range append([]*Decl(nil), out...) {
			if thorough && strings.Contains(d.Note, "wide") && d.Provs[0].Fallible {
				continue // thorough: the wide block is large; its fallible members are not duplicated
			}
			if strings.Contains(d.Note, "wide") || strings.Contains(d.Note, "large") || (len(d.Provs) >= 5 && d.Prelude == "" && strings.Contains(d.Note, "base n=4")) {
				if r := rev.Apply(d, 0); r != nil {
					r.Note = d.Note
					add(r, "params-reversed")
				}
			}
		}
	}
	// Block D: presentations (order, Set grouping) of every all-needed shape n<=3 (quick) / n<=4 (thorough),
	// and all permutations for n<=3.
	for _, b := range basesC {
		for _, v := range Presentations {
			add(v.Apply(b, 0), v.Name)
		}
		if len(b.Provs) <= 3 {
			for _, perm := range permutations(len(b.Provs)) {
				c := b.Clone()
				c.Order = perm
				add(c, fmt.Sprintf("perm%v", perm))
			}
		}
	}
	// presentations on top of a struct / bind / multi variant
	for _, b := range basesC {
		if len(b.Provs) != 3 {
			continue
		}
		for _, vn := range []string{"struct-ptr", "bind", "multi-split"} {
			for _, v := range Variants {
				if v.Name != vn {
					continue
				}
				d1 := v.Apply(b, 0)
				if d1 == nil {
					continue
				}
				for _, pr := range Presentations {
					add(pr.Apply(d1, 0), vn+"@0+"+pr.Name)
				}
			}
		}
	}
	return out
}

// custom builds a declaration from explicit requirement lists: provider i requires the providers req[i].
func custom(req [][]int, async func(i int) bool, fallible func(i int) bool, note string) *Decl {
	n := len(req)
	d := &Decl{Name: "Init", Target: fmt.Sprintf("*T%d", n-1), Structs: map[string][]Field{}, SetVar: map[int]bool{}, SetNest: map[int]int{}, Large: true}
	for i := 0; i < n; i++ {
		p := &Prov{ID: i, Kind: Func, Provides: []string{fmt.Sprintf("*T%d", i)}, Async: async(i), Fallible: fallible(i)}
		for _, j := range req[i] {
			p.Requires = append(p.Requires, fmt.Sprintf("*T%d", j))
		}
		d.Provs = append(d.Provs, p)
	}
	d.Note = "large " + note
	return d
}

// LargeShapes enumerates block L.
func LargeShapes(thorough bool) []*Decl {
	var out []*Decl
	never := func(int) bool { return false }
	ks, ms := []int{8, 9}, []int{0, 3}
	if thorough {
		ks, ms = []int{5, 6, 7, 8, 9, 10}, []int{0, 1, 2, 3}
	}
	for _, k := range ks {
		for _, m := range ms {
			var req [][]int
			for i := 0; i < k; i++ {
				req = append(req, nil)
			}
			for j := 0; j < m; j++ {
				req = append(req, []int{0, 1})
			}
			var all []int
			for i := 0; i < k+m; i++ {
				all = append(all, i)
			}
			req = append(req, all)
			sink := k + m
			for _, sinkAsync := range []bool{false, true} {
				for _, syncRoot := range []int{-1, 0, k - 1} {
					if !thorough && syncRoot == k-1 {
						continue
					}
					as := func(i int) bool {
						if i == sink {
							return sinkAsync
						}
						return i != syncRoot
					}
					note := fmt.Sprintf("fan k=%d m=%d sinkAsync=%v syncRoot=%d", k, m, sinkAsync, syncRoot)
					out = append(out, custom(req, as, never, note))
					if m > 0 || thorough {
						// every provider fallible: error paths with many goroutines
						out = append(out, custom(req, as, func(int) bool { return true }, note+" fallible"))
					}
				}
			}
		}
	}
	// bipartite two-level shapes: 3 input-free roots, 3 consumers each taking a non-empty subset of the roots (every
	// combination), a sink taking the three consumers; roots Async, consumers synchronous (quick) / also all Async
	// (thorough). These are the shapes in which the pool count is tight (as many pools as the largest antichain).
	for m0 := 1; m0 < 8; m0++ {
		for m1 := m0; m1 < 8; m1++ {
			for m2 := m1; m2 < 8; m2++ {
				if m0|m1|m2 != 7 {
					continue // every root needed
				}
				req := [][]int{nil, nil, nil}
				for _, m := range []int{m0, m1, m2} {
					var r []int
					for b := 0; b < 3; b++ {
						if m&(1<<b) != 0 {
							r = append(r, b)
						}
					}
					req = append(req, r)
				}
				req = append(req, []int{3, 4, 5})
				note := fmt.Sprintf("bipartite 3x3 %d%d%d", m0, m1, m2)
				out = append(out, custom(req, func(i int) bool { return i < 3 }, never, note+" roots async"))
				if thorough {
					out = append(out, custom(req, func(i int) bool { return i < 6 }, never, note+" roots+consumers async"))
					out = append(out, custom(req, func(i int) bool { return i < 3 }, func(i int) bool { return i >= 3 }, note+" roots async, rest fallible"))
				}
			}
		}
	}
	// chains of n providers, Async marks alternating / all / none-but-first
	ns := []int{8}
	if thorough {
		ns = []int{6, 7, 8, 9, 10, 12}
	}
	for _, n := range ns {
		var req [][]int
		for i := 0; i < n; i++ {
			if i == 0 {
				req = append(req, nil)
			} else {
				req = append(req, []int{i - 1})
			}
		}
		out = append(out, custom(req, func(i int) bool { return i%2 == 0 }, never, fmt.Sprintf("chain n=%d alternating", n)))
		out = append(out, custom(req, func(i int) bool { return true }, never, fmt.Sprintf("chain n=%d all async", n)))
		out = append(out, custom(req, func(i int) bool { return true }, func(i int) bool { return i%3 == 1 }, fmt.Sprintf("chain n=%d all async, every third fallible", n)))
	}
	// balanced binary in-trees: 4 leaves (7 providers), 8 leaves (15 providers, thorough)
	leaves := []int{4}
	if thorough {
		leaves = []int{4, 8}
	}
	for _, l := range leaves {
		var req [][]int
		level := []int{}
		for i := 0; i < l; i++ {
			req = append(req, nil)
			level = append(level, i)
		}
		for len(level) > 1 {
			var next []int
			for i := 0; i+1 < len(level); i += 2 {
				req = append(req, []int{level[i], level[i+1]})
				next = append(next, len(req)-1)
			}
			level = next
		}
		out = append(out, custom(req, func(int) bool { return true }, never, fmt.Sprintf("tree leaves=%d all async", l)))
		out = append(out, custom(req, func(i int) bool { return i < l }, never, fmt.Sprintf("tree leaves=%d leaves async", l)))
		out = append(out, custom(req, func(int) bool { return true }, func(i int) bool { return i < l }, fmt.Sprintf("tree leaves=%d all async, leaves fallible", l)))
	}
	// two-level fan: r roots, combiner j takes roots j and j+1, the sink takes every combiner
	rs := []int{6}
	if thorough {
		rs = []int{4, 5, 6, 7, 8}
	}
	for _, r := range rs {
		var req [][]int
		for i := 0; i < r; i++ {
			req = append(req, nil)
		}
		var combs []int
		for j := 0; j+1 < r; j++ {
			req = append(req, []int{j, j + 1})
			combs = append(combs, len(req)-1)
		}
		req = append(req, combs)
		out = append(out, custom(req, func(int) bool { return true }, never, fmt.Sprintf("two-level fan r=%d all async", r)))
		out = append(out, custom(req, func(i int) bool { return i < r }, never, fmt.Sprintf("two-level fan r=%d roots async", r)))
	}
	return out
}
