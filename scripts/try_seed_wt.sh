#!/bin/bash
# usage: try_seed_wt.sh <seed-name> <ID>... — run checks against a scratch worktree of /repo with seeded/<seed-name>/patch.diff applied
# (development helper: /repo itself stays untouched; final confirmation uses try_seed.sh on /repo).
name=$1; shift
wt=/tmp/wtm-$name
git -C /repo worktree remove --force $wt >/dev/null 2>&1
git -C /repo worktree add --detach $wt ${BASE:-HEAD} >/dev/null 2>&1 || exit 2
git -C $wt apply /verif/seeded/$name/patch.diff || exit 2
cd /verif
for id in "$@"; do
  out=$(VERIF_REPO=$wt ${VCHECK:-./bin/vcheck} run $id --tier ${TIER:-quick} 2>&1); rc=$?
  echo "== seed=$name check=$id exit=$rc"
  echo "$out" | grep -E "^(VIOLATION|  kind=|  witness|KNOWN-FINDING|BUILD-FAILED|SETUP-FAILED|C[0-9]+ tier)" | cut -c1-260
done
git -C /repo worktree remove --force $wt
