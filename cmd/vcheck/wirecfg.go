package main

// wirecfg.go — the google/wire configuration universe shared by C13 and C14, and the real-tool
// pipeline around it (wire -> wire_gen.go; kessoku migrate -> kessoku.go; kessoku -> *_band.go).
//
// A configuration is a small provider DAG (wNode per node, dependencies point to earlier nodes, the
// last node is what the injector returns) plus the way it is written down for wire: which wire
// construct supplies each node, whether an interface binding sits on it, how the elements are spread
// over provider sets and files, which injector arguments exist and whether the injector can fail.
// Every provider is a stub that returns a *symbolic term* (its name applied to the terms of its
// inputs) and records its call in a package-level log (package corpus/sym), exactly like
// verif/internal/decl does for kessoku declarations; wire's injector and the injector kessoku
// generates from the migrated file are then compared on terms, call multisets and error identity.

import (
	"bytes"
	"fmt"
	"go/ast"
	"go/parser"
	"go/token"
	"go/types"
	"os"
	"os/exec"
	"path/filepath"
	"regexp"
	"sort"
	"strings"

	"verif/internal/pipe"
)

// Node kinds: which wire construct supplies the node's type.
const (
	kF    = "F"     // func P(deps) *T
	kFE   = "FE"    // func P(deps) (*T, error)
	kV    = "V"     // wire.Value(T{...})           provides T
	kVp   = "Vp"    // wire.Value(&T{...})          provides *T
	kIV   = "IV"    // wire.InterfaceValue(new(I), &T{...}) provides I
	kSAp  = "SAp"   // wire.Struct(new(S), "*")     consumed as *S
	kSAv  = "SAv"   // wire.Struct(new(S), "*")     consumed as S
	kSFp  = "SFp"   // wire.Struct(new(S), "F..")   consumed as *S (one field left out)
	kSFv  = "SFv"   // wire.Struct(new(S), "F..")   consumed as S
	kFOva = "FOva"  // wire.FieldsOf(new(C), "A"),  C is an injector argument
	kFOvf = "FOvf"  // wire.FieldsOf(new(C), "A"),  C returned by a provider func
	kFOpa = "FOpa"  // wire.FieldsOf(new(*C), "A"), *C is an injector argument
	kFOpf = "FOpf"  // wire.FieldsOf(new(*C), "A"), *C returned by a provider func
	kFO2  = "FO2pa" // wire.FieldsOf(new(*C), "A", "B"): two fields, both consumed; *C is an injector argument
	kFV   = "FV"    // func P(deps) T<j>: the VALUE form of the struct whose pointer form node j (Twin) provides
	kFOM  = "FOMpa" // wire.FieldsOf(new(*C), "A"), wire.FieldsOf(new(*C), "B"): two elements over one struct
)

var (
	leafKindsFull = []string{kF, kFE, kV, kVp, kIV, kFOva, kFOpa, kFOvf, kFOpf, kFO2, kFOM, kSAp, kSAv, kSFp, kSFv}
	depKindsFull  = []string{kF, kFE, kSAp, kSAv, kSFp, kSFv, kFOvf, kFOpf}
	leafKindsRed  = []string{kF, kFE, kV, kIV, kFOva, kFOpf}
	depKindsRed   = []string{kF, kFE, kSAp, kSFv}
	leafKindsMin  = []string{kF, kV, kFOpa}
	depKindsMin   = []string{kF, kFE, kSAp}
)

// wNode is one node of the provider graph.
type wNode struct {
	Kind string `json:"kind"`
	Deps []int  `json:"deps,omitempty"`
	Twin int    `json:"twin,omitempty"` // kind FV only: the F/FE node whose struct type this node returns by value
	Arg  bool   `json:"arg,omitempty"`  // additionally consumes the injector argument *A<k>
	Bind string `json:"bind,omitempty"` // "", "new" (ctor New<T>), "other" (ctor Make<T>, no New<T>), "decoy" (ctor Make<T>, an unrelated New<T> exists)
}

// wCfg is one wire configuration.
type wCfg struct {
	Nodes  []wNode `json:"nodes"`
	Sets   string  `json:"sets"`              // flat | inline | var | file | nested
	BindAt string  `json:"bind_at,omitempty"` // "" (wire.Bind next to its provider) | "build" (provider in the set, wire.Bind in wire.Build)
	Extra  bool    `json:"extra_arg,omitempty"`
	Err    bool    `json:"err"`
	Block  string  `json:"block"`
	// Pre places another top-level set and injector EARLIER in the same wire file: "fieldsof-earlier" = a set with
	// wire.FieldsOf on the same struct as this configuration's FieldsOf node (another field), used by its own injector
	Pre string `json:"pre,omitempty"`
}

func isStructKind(k string) bool { return strings.HasPrefix(k, "S") }
func isFOKind(k string) bool     { return strings.HasPrefix(k, "FO") }
func isFuncKind(k string) bool {
	return k == kF || k == kFE || k == kFOvf || k == kFOpf || k == kFV
}
func bindable(k string) bool { return k == kF || k == kFE || k == kSAp }

// hasSecond: the node supplies a second type *U<k> (field B) next to *T<k>; consumers take both.
func hasSecond(k string) bool { return k == kFO2 || k == kFOM }

func (c *wCfg) target() int { return len(c.Nodes) - 1 }

func (c *wCfg) clone() *wCfg {
	d := *c
	d.Nodes = make([]wNode, len(c.Nodes))
	for i, n := range c.Nodes {
		d.Nodes[i] = n
		d.Nodes[i].Deps = append([]int(nil), n.Deps...)
	}
	return &d
}

// funcName is the name of the provider function of node k ("" if the node has none).
func (c *wCfg) funcName(k int) string {
	n := c.Nodes[k]
	switch {
	case n.Kind == kF || n.Kind == kFE:
		switch n.Bind {
		case "new":
			return fmt.Sprintf("NewT%d", k)
		case "other", "decoy":
			return fmt.Sprintf("MakeT%d", k)
		}
		return fmt.Sprintf("P%d", k)
	case n.Kind == kFOvf || n.Kind == kFOpf || n.Kind == kFV:
		return fmt.Sprintf("P%d", k)
	}
	return ""
}

// provType is the type node k supplies to the graph.
func (c *wCfg) provType(k int) string {
	switch c.Nodes[k].Kind {
	case kF, kFE, kVp, kFOva, kFOvf, kFOpa, kFOpf, kFO2, kFOM:
		return fmt.Sprintf("*T%d", k)
	case kV:
		return fmt.Sprintf("T%d", k)
	case kFV:
		return fmt.Sprintf("T%d", c.Nodes[k].Twin)
	case kIV:
		return fmt.Sprintf("I%d", k)
	case kSAp, kSFp:
		return fmt.Sprintf("*S%d", k)
	}
	return fmt.Sprintf("S%d", k)
}

func (c *wCfg) consumers(k int) []int {
	var out []int
	for j := k + 1; j < len(c.Nodes); j++ {
		for _, d := range c.Nodes[j].Deps {
			if d == k {
				out = append(out, j)
			}
		}
	}
	return out
}

// consType is the type consumer j takes node k as: a bound node is taken through its interface by its
// first consumer and as the concrete pointer by the others.
func (c *wCfg) consType(k, j int) string {
	if c.Nodes[k].Bind != "" {
		if cs := c.consumers(k); len(cs) > 0 && cs[0] == j {
			return fmt.Sprintf("I%d", k)
		}
	}
	return c.provType(k)
}

func (c *wCfg) resultType() string {
	t := c.target()
	if c.Nodes[t].Bind != "" {
		return fmt.Sprintf("I%d", t)
	}
	return c.provType(t)
}

// fallible lists the provider functions that can be made to fail.
func (c *wCfg) fallible() []string {
	var out []string
	for k, n := range c.Nodes {
		if n.Kind == kFE {
			out = append(out, c.funcName(k))
		}
	}
	return out
}

func (c *wCfg) argMode() string {
	used := false
	for _, n := range c.Nodes {
		if n.Arg || (isFOKind(n.Kind) && strings.HasSuffix(n.Kind, "a")) {
			used = true
		}
	}
	switch {
	case used && c.Extra:
		return "partly"
	case used:
		return "used"
	case c.Extra:
		return "unused-only"
	}
	return "none"
}

// Spec is the one-line witness of the configuration.
func (c *wCfg) Spec() string {
	var sb strings.Builder
	for k, n := range c.Nodes {
		if k > 0 {
			sb.WriteByte(' ')
		}
		fmt.Fprintf(&sb, "N%d:%s", k, n.Kind)
		if n.Kind == kFV {
			fmt.Fprintf(&sb, "~N%d", n.Twin)
		}
		if n.Bind != "" {
			sb.WriteString("+bind-" + n.Bind)
		}
		var in []string
		for _, d := range n.Deps {
			in = append(in, fmt.Sprintf("N%d", d))
		}
		if n.Arg {
			in = append(in, "arg")
		}
		sb.WriteString("(" + strings.Join(in, ",") + ")")
	}
	fmt.Fprintf(&sb, " | sets=%s", c.Sets)
	if c.BindAt != "" {
		sb.WriteString(" bind-at=" + c.BindAt)
	}
	sb.WriteString(" args=" + c.argMode())
	if c.Err {
		sb.WriteString(" err")
	}
	if c.Pre != "" {
		sb.WriteString(" pre=" + c.Pre)
	}
	return sb.String()
}

// Features is the canonical precondition string of a configuration: the constructs it contains and
// the values of the global axes. known_findings.json selects the relevant part with a regexp.
func (c *wCfg) Features() string {
	ks := map[string]bool{}
	bs := map[string]bool{}
	for _, n := range c.Nodes {
		ks[n.Kind] = true
		if n.Bind != "" {
			bs[n.Bind] = true
		}
	}
	keys := func(m map[string]bool) string {
		var out []string
		for k := range m {
			out = append(out, k)
		}
		sort.Strings(out)
		if len(out) == 0 {
			return "none"
		}
		return strings.Join(out, "+")
	}
	errMode := "none"
	switch {
	case c.Err && len(c.fallible()) > 0:
		errMode = "needed"
	case c.Err:
		errMode = "declared-only"
	}
	at := c.BindAt
	if at == "" {
		at = "provider"
	}
	pre := ""
	if c.Pre != "" {
		pre = ",pre=" + c.Pre
	}
	return fmt.Sprintf("n=%d,target=%s,kinds=%s,bind=%s,bind-at=%s,sets=%s,args=%s,err=%s%s", len(c.Nodes), c.Nodes[c.target()].Kind, keys(ks), keys(bs), at, c.Sets, c.argMode(), errMode, pre)
}

// transDeps is the set of nodes node k transitively depends on.
func (c *wCfg) transDeps(k int) map[int]bool {
	out := map[int]bool{}
	var rec func(j int)
	rec = func(j int) {
		for _, d := range c.Nodes[j].Deps {
			if !out[d] {
				out[d] = true
				rec(d)
			}
		}
	}
	rec(k)
	return out
}

// neededBelow is the set of nodes still reachable from the target when the dependencies of the nodes
// in cut are not followed (the injector obtains those nodes some other way).
func (c *wCfg) neededBelow(cut map[int]bool) map[int]bool {
	out := map[int]bool{}
	var rec func(j int)
	rec = func(j int) {
		if out[j] {
			return
		}
		out[j] = true
		if cut[j] {
			return
		}
		for _, d := range c.Nodes[j].Deps {
			rec(d)
		}
	}
	rec(c.target())
	return out
}

// siteOf names the wire construct behind node k: the "return site" part of a mechanism signature.
func (c *wCfg) siteOf(k int) string {
	n := c.Nodes[k]
	s := map[string]string{
		kF: "provider-func", kFE: "provider-func-with-error", kV: "Value(T{})", kVp: "Value(&T{})", kIV: "InterfaceValue(new(I),&T{})",
		kSAp: `Struct(new(T),"*")-consumed-as-pointer`, kSAv: `Struct(new(T),"*")-consumed-as-value`,
		kSFp: `Struct(new(T),fields)-consumed-as-pointer`, kSFv: `Struct(new(T),fields)-consumed-as-value`,
		kFOva: "FieldsOf(new(T))-over-value-struct-from-injector-arg", kFOvf: "FieldsOf(new(T))-over-value-struct-from-provider",
		kFOpa: "FieldsOf(new(*T))-over-pointer-struct-from-injector-arg", kFOpf: "FieldsOf(new(*T))-over-pointer-struct-from-provider",
		kFV:  "provider-func-returning-the-value-form-of-a-struct-whose-pointer-form-another-provider-returns",
		kFO2: "FieldsOf(new(*T),two-fields)", kFOM: "two-FieldsOf-elements-over-one-struct",
	}[n.Kind]
	switch n.Bind {
	case "new":
		s += "+Bind(ctor-named-New<T>)"
	case "other":
		s += "+Bind(ctor-named-otherwise)"
	case "decoy":
		s += "+Bind(ctor-named-otherwise,unrelated-New<T>-exists)"
	}
	if n.Bind != "" && c.BindAt == "build" {
		s += "+Bind-outside-the-provider's-set"
	}
	return s
}

var reTypeIdx = regexp.MustCompile(`^\*?[TUSCIA](\d+)$`)

// ownerOfType maps a type spelled in a signature to the node it belongs to (-1: none).
func (c *wCfg) ownerOfType(t string) int {
	if !strings.HasPrefix(t, "*") {
		// the value form T<j> belongs to the node that returns it by value, if there is one
		for k, n := range c.Nodes {
			if n.Kind == kFV && t == fmt.Sprintf("T%d", n.Twin) {
				return k
			}
		}
	}
	if m := reTypeIdx.FindStringSubmatch(t); m != nil {
		k := 0
		fmt.Sscan(m[1], &k)
		if k < len(c.Nodes) {
			return k
		}
	}
	return -1
}

// ownerOfFunc maps a provider function name of the call log to its node (-1: none).
func (c *wCfg) ownerOfFunc(name string) int {
	for k := range c.Nodes {
		if c.funcName(k) == name {
			return k
		}
		if name == fmt.Sprintf("NewT%d", k) || name == fmt.Sprintf("NewS%d", k) {
			return k
		}
	}
	return -1
}

// ---------------------------------------------------------------------------------------------
// enumeration

// shapes enumerates the dependency structures on n nodes in which every non-final node is consumed.
func shapes(n int) [][][]int {
	var out [][][]int
	cur := make([][]int, n)
	var rec func(j int)
	rec = func(j int) {
		if j == n {
			used := make([]bool, n)
			for _, ds := range cur {
				for _, d := range ds {
					used[d] = true
				}
			}
			for i := 0; i < n-1; i++ {
				if !used[i] {
					return
				}
			}
			cp := make([][]int, n)
			for i := range cur {
				cp[i] = append([]int(nil), cur[i]...)
			}
			out = append(out, cp)
			return
		}
		for mask := 0; mask < 1<<j; mask++ {
			var ds []int
			for b := 0; b < j; b++ {
				if mask&(1<<b) != 0 {
					ds = append(ds, b)
				}
			}
			cur[j] = ds
			rec(j + 1)
		}
	}
	rec(0)
	return out
}

func indexOf(xs []string, s string) int {
	for i, x := range xs {
		if x == s {
			return i
		}
	}
	return -1
}

// baseConfigs enumerates shape x kind assignments (flat, no extra argument, error result iff needed).
func baseConfigs(n int, leaf, dep []string, block string) []*wCfg {
	var out []*wCfg
	for _, sh := range shapes(n) {
		kinds := make([]string, n)
		var rec func(j int)
		rec = func(j int) {
			if j == n {
				c := &wCfg{Sets: "flat", Block: block}
				for k := 0; k < n; k++ {
					nd := wNode{Kind: kinds[k], Deps: append([]int(nil), sh[k]...)}
					if isStructKind(nd.Kind) && len(nd.Deps) == 0 {
						nd.Arg = true // a struct needs at least one injected field
					}
					c.Nodes = append(c.Nodes, nd)
				}
				// symmetry: two adjacent leaves with the same consumers are interchangeable
				for k := 0; k+1 < n; k++ {
					if len(sh[k]) == 0 && len(sh[k+1]) == 0 && fmt.Sprint(c.consumers(k)) == fmt.Sprint(c.consumers(k+1)) && indexOf(leaf, kinds[k]) > indexOf(leaf, kinds[k+1]) {
						return
					}
				}
				c.Err = len(c.fallible()) > 0
				out = append(out, c)
				return
			}
			ks := dep
			if len(sh[j]) == 0 {
				ks = leaf
			}
			for _, k := range ks {
				kinds[j] = k
				rec(j + 1)
			}
		}
		rec(0)
	}
	return out
}

// withSets / withArgs / withErr / withBind derive variants along one axis.
func withSets(c *wCfg, sets string) *wCfg {
	if sets == "nested" {
		// needs two elements in the set part
		if len(c.Nodes) < 3 {
			return nil
		}
	}
	d := c.clone()
	d.Sets = sets
	return d
}

func withArgs(c *wCfg, mode string) *wCfg {
	if c == nil {
		return nil
	}
	d := c.clone()
	switch mode {
	case "none":
		return d
	case "used", "partly":
		found := false
		for k := range d.Nodes {
			if !d.Nodes[k].Arg && (isFuncKind(d.Nodes[k].Kind) || isStructKind(d.Nodes[k].Kind)) {
				d.Nodes[k].Arg = true
				found = true
				break
			}
		}
		if !found && d.argMode() == "none" {
			return nil
		}
		d.Extra = mode == "partly"
	}
	return d
}

func withErr(c *wCfg) *wCfg {
	if c == nil || c.Err {
		return nil
	}
	d := c.clone()
	d.Err = true
	return d
}

func withBind(c *wCfg, k int, variant, at string) *wCfg {
	if c == nil || !bindable(c.Nodes[k].Kind) {
		return nil
	}
	if c.Nodes[k].Kind == kSAp && variant == "new" {
		return nil // a wire.Struct node has no constructor to name
	}
	if at == "build" && c.Sets == "flat" {
		return nil
	}
	d := c.clone()
	d.Nodes[k].Bind = variant
	d.BindAt = at
	return d
}

// wireUniverse builds the configuration universe of a tier. The rule string documents it.
func wireUniverse(tier string) ([]*wCfg, string) {
	var out []*wCfg
	seen := map[string]bool{}
	add := func(c *wCfg, block string) {
		if c == nil {
			return
		}
		c.Block = block
		key := c.Spec()
		if seen[key] {
			return
		}
		seen[key] = true
		out = append(out, c)
	}
	thorough := tier == "thorough"
	setModes := []string{"flat", "inline", "var", "file"}
	var small []*wCfg
	small = append(small, baseConfigs(1, leafKindsFull, depKindsFull, "")...)
	small = append(small, baseConfigs(2, leafKindsFull, depKindsFull, "")...)
	// A: n<=2, every construct; axes crossed pairwise (quick) or fully (thorough)
	for _, b := range small {
		if thorough {
			for _, s := range append(setModes, "nested") {
				for _, a := range []string{"none", "used", "partly"} {
					v := withArgs(withSets(b, s), a)
					add(v, "A")
					if v != nil {
						add(withErr(v), "A")
					}
				}
			}
			continue
		}
		for _, s := range setModes {
			add(withSets(b, s), "A")
		}
		add(withArgs(b, "used"), "A")
		add(withArgs(b, "partly"), "A")
		add(withErr(b), "A")
	}
	// E: an earlier declaration of the same file uses wire.FieldsOf on the same struct (another field): state kept
	// across the top-level declarations of one file shows in the configuration's own injector
	for _, b := range small {
		if b.preNode() < 0 {
			continue
		}
		for _, sm := range []string{"flat", "var"} {
			v := withSets(b, sm)
			if v == nil {
				continue
			}
			v = v.clone()
			v.Pre = "fieldsof-earlier"
			add(v, "E")
		}
	}
	// B: n=3 shapes
	if thorough {
		for _, b := range baseConfigs(3, leafKindsFull, depKindsFull, "") {
			add(b, "B")
		}
		for _, b := range baseConfigs(3, leafKindsRed, depKindsRed, "") {
			for _, s := range []string{"inline", "var", "file", "nested"} {
				add(withSets(b, s), "B")
			}
			add(withArgs(b, "partly"), "B")
			add(withErr(b), "B")
		}
		for _, b := range baseConfigs(4, leafKindsMin, depKindsMin, "") {
			add(b, "B4")
		}
	} else {
		for _, b := range baseConfigs(3, leafKindsRed, depKindsRed, "") {
			add(b, "B")
		}
		for _, b := range baseConfigs(3, leafKindsMin, depKindsMin, "") {
			add(withSets(b, "nested"), "B")
		}
	}
	// C: interface bindings on every bindable node of the small reduced configurations
	var bases []*wCfg
	bases = append(bases, baseConfigs(1, []string{kF, kFE, kSAp}, nil, "")...)
	bases = append(bases, baseConfigs(2, leafKindsRed, depKindsRed, "")...)
	bases = append(bases, baseConfigs(2, []string{kSAp}, depKindsRed, "")...)
	if thorough {
		bases = append(bases, baseConfigs(3, leafKindsMin, depKindsMin, "")...)
	}
	bindSets := []string{"flat", "var"}
	if thorough {
		bindSets = []string{"flat", "inline", "var", "file"}
	}
	for _, b := range bases {
		sets := bindSets
		if len(b.Nodes) > 2 {
			sets = []string{"flat", "var"}
		}
		for k := range b.Nodes {
			for _, variant := range []string{"new", "other", "decoy"} {
				for _, s := range sets {
					sb := withSets(b, s)
					add(withBind(sb, k, variant, ""), "C")
					if k != sb.target() || len(sb.Nodes) == 1 {
						add(withBind(sb, k, variant, "build"), "C")
					}
				}
			}
		}
	}
	// D: the pointer form and the value form of ONE struct type provided by two different providers
	// (wire treats T and *T as distinct types), with and without a wire.Bind on the pointer form
	ptrKinds, tgtKinds := []string{kF, kFE}, []string{kF, kSAp}
	twinSets := setModes
	if thorough {
		tgtKinds = depKindsRed
		twinSets = append(append([]string{}, setModes...), "nested")
	}
	var twins []*wCfg
	for _, pk := range ptrKinds {
		for _, vdeps := range [][]int{nil, {0}} {
			if vdeps != nil {
				// the value provider is what the injector returns
				twins = append(twins, &wCfg{Sets: "flat", Nodes: []wNode{{Kind: pk}, {Kind: kFV, Twin: 0, Deps: vdeps}}})
			}
			for _, tk := range tgtKinds {
				twins = append(twins, &wCfg{Sets: "flat", Nodes: []wNode{{Kind: pk}, {Kind: kFV, Twin: 0, Deps: vdeps}, {Kind: tk, Deps: []int{0, 1}}}})
			}
		}
	}
	for _, b := range twins {
		b.Err = len(b.fallible()) > 0
		for _, s := range twinSets {
			sb := withSets(b, s)
			add(sb, "D")
			for _, variant := range []string{"new", "other", "decoy"} {
				add(withBind(sb, 0, variant, ""), "D")
				add(withBind(sb, 0, variant, "build"), "D")
			}
		}
	}
	rule := "wire configurations = provider DAG on n nodes (every non-final node consumed, last node returned by the injector) x construct per node {func, func+error, Value(T{}), Value(&T{}), InterfaceValue, Struct(\"*\") as pointer / as value, Struct(fields) as pointer / as value, FieldsOf(new(T)) / FieldsOf(new(*T)) with the struct coming from an injector argument / from a provider, FieldsOf with two fields, two FieldsOf elements over one struct} x wire.Bind on a func/Struct node {ctor named New<T>, named otherwise, named otherwise with an unrelated New<T> in the package} placed {next to the provider, in wire.Build while the provider sits in the set} x set structure {flat, inline NewSet, set variable, set variable in a second file, nested set variables} x injector arguments {none, used, used + one unused} x error result {iff a provider can fail, declared although none can}. "
	if thorough {
		rule += "Block A: n<=2 with all 15 leaf / 8 inner constructs, all axes fully crossed. Block B: n=3 (all 3 shapes) with all constructs, flat; n=3 over the reduced alphabet {F,FE,V,IV,FOva,FOpf}/{F,FE,SAp,SFv} x {inline,var,file,nested | partly-used args | declared-only error}; B4: n=4 (all shapes) over {F,V,FOpa}/{F,FE,SAp}, flat. Block C: every bindable node of n<=2 reduced configurations x 3 constructor namings x 4 set structures x 2 Bind placements, and of n=3 minimal-alphabet configurations x 3 namings x {flat, set variable} x 2 placements. Block D: pointer form (func / func+error) and value form (func FV returning T, independent of / depending on the pointer) of ONE struct type provided side by side, consumed by {the injector result, F, FE, SAp, SFv} x Bind on the pointer form {none, New<T>, named otherwise, named otherwise + unrelated New<T>} x 2 Bind placements x 5 set structures."
	} else {
		rule += "Block A: n<=2 with all 15 leaf / 8 inner constructs; axes crossed one at a time against the flat/no-argument/minimal-error base (4 set structures + 2 argument modes + declared-only error). Block B: n=3 (all 3 shapes) over the reduced alphabet {F,FE,V,IV,FOva,FOpf}/{F,FE,SAp,SFv}, flat; n=3 over {F,V,FOpa}/{F,FE,SAp} with nested set variables. Block C: every bindable node of n<=2 reduced configurations x 3 constructor namings x {flat, set variable} x 2 Bind placements. Block D: pointer form (func / func+error) and value form (func FV returning T, independent of / depending on the pointer) of ONE struct type provided side by side, consumed by {the injector result, F, SAp} x Bind on the pointer form {none, New<T>, named otherwise, named otherwise + unrelated New<T>} x 2 Bind placements x 4 set structures."
	}
	return out, rule
}

// ---------------------------------------------------------------------------------------------
// emission

// symSrc is the runtime the generated packages import: symbolic terms, the call log and the failing
// provider switch. It imports nothing, on purpose: google/wire type-checks the whole import graph of
// the package from source on every run.
const symSrc = `// Package sym is the symbolic runtime of the wire/kessoku differential harness. Generated by verif.
package sym

// Termer is anything that carries a symbolic term.
type Termer interface{ Term() string }

// Log is the call log of the current execution (wire's and kessoku's sync injectors are sequential).
var Log []string

// Failing names the provider that fails in the current execution ("" = none).
var Failing string

// Err is the sentinel error of one provider.
type Err struct{ Name string }

func (e *Err) Error() string { return e.Name + " failed" }

var sentinels = map[string]*Err{}

// ErrOf is the sentinel error provider name fails with.
func ErrOf(name string) error {
	if e, ok := sentinels[name]; ok {
		return e
	}
	e := &Err{Name: name}
	sentinels[name] = e
	return e
}

// FailIf returns the sentinel when name is the provider chosen to fail in this execution.
func FailIf(name string) error {
	if Failing == name {
		return ErrOf(name)
	}
	return nil
}

// Tm is the symbolic term carried by x (Term methods accept nil receivers).
func Tm(x Termer) string {
	if x == nil {
		return "nil"
	}
	return x.Term()
}

// Call logs the invocation of a provider and returns its term.
func Call(name string, args ...Termer) string {
	t := name + "("
	for i, a := range args {
		if i > 0 {
			t += ","
		}
		t += Tm(a)
	}
	t += ")"
	Log = append(Log, t)
	return t
}

// Cases is the registry the runner iterates: name -> injector call.
var Cases = map[string]func() (term string, err error, hasErr bool){}

func Register(id string, f func() (string, error, bool)) { Cases[id] = f }
`

// symRunSrc is the runner side (imported by the runner's main package only).
const symRunSrc = `// Package symrun executes the registered injectors. Generated by verif.
package symrun

import (
	"encoding/json"
	"errors"
	"fmt"
	"os"
	"sort"

	"corpus/sym"
)

// Rec is one execution of one injector.
type Rec struct {
	ID         string   ` + "`json:\"id\"`" + `
	Fail       string   ` + "`json:\"fail\"`" + `
	Term       string   ` + "`json:\"term\"`" + `
	Log        []string ` + "`json:\"log\"`" + `
	HasErr     bool     ` + "`json:\"has_err\"`" + `
	Err        string   ` + "`json:\"err\"`" + `
	IsSentinel bool     ` + "`json:\"is_sentinel\"`" + `
	Panic      string   ` + "`json:\"panic\"`" + `
}

func run(id, fail string) (r Rec) {
	r = Rec{ID: id, Fail: fail}
	sym.Log = nil
	sym.Failing = fail
	defer func() {
		if p := recover(); p != nil {
			r.Panic = fmt.Sprint(p)
		}
		r.Log = append([]string{}, sym.Log...)
		sort.Strings(r.Log)
	}()
	term, err, hasErr := sym.Cases[id]()
	r.Term, r.HasErr = term, hasErr
	if err != nil {
		r.Err = err.Error()
		r.IsSentinel = fail != "" && errors.Is(err, sym.ErrOf(fail))
	}
	return r
}

// Main runs every registered case fault-free and once per failing provider listed for it in the JSON
// file given as the first argument (key: case name without the w/ or k/ prefix).
func Main() {
	fails := map[string][]string{}
	if len(os.Args) > 1 {
		b, err := os.ReadFile(os.Args[1])
		if err != nil {
			panic(err)
		}
		if err := json.Unmarshal(b, &fails); err != nil {
			panic(err)
		}
	}
	var ids []string
	for id := range sym.Cases {
		ids = append(ids, id)
	}
	sort.Strings(ids)
	enc := json.NewEncoder(os.Stdout)
	for _, id := range ids {
		_ = enc.Encode(run(id, ""))
		for _, f := range fails[id[2:]] {
			_ = enc.Encode(run(id, f))
		}
	}
}
`

// wField is a named, typed slot: a struct field or a function parameter.
type wField struct{ Name, Type string }

// termArg spells expression x of type t as a sym.Termer (Term methods have pointer receivers).
func termArg(x, t string) string {
	if strings.HasPrefix(t, "*") || strings.HasPrefix(t, "I") {
		return x
	}
	return "&" + x
}

// structFields lists the injected fields of S<k>.
func (c *wCfg) structFields(k int) []wField {
	n := c.Nodes[k]
	var fs []wField
	for _, d := range n.Deps {
		fs = append(fs, wField{fmt.Sprintf("F%d", d), c.consType(d, k)})
		if hasSecond(c.Nodes[d].Kind) {
			fs = append(fs, wField{fmt.Sprintf("G%d", d), fmt.Sprintf("*U%d", d)})
		}
	}
	if n.Arg {
		fs = append(fs, wField{"FA", fmt.Sprintf("*A%d", k)})
	}
	return fs
}

func (c *wCfg) params(k int) (decl string, names []string) {
	n := c.Nodes[k]
	var ps []string
	for _, d := range n.Deps {
		ps = append(ps, fmt.Sprintf("d%d %s", d, c.consType(d, k)))
		names = append(names, termArg(fmt.Sprintf("d%d", d), c.consType(d, k)))
		if hasSecond(c.Nodes[d].Kind) {
			ps = append(ps, fmt.Sprintf("e%d *U%d", d, d))
			names = append(names, fmt.Sprintf("e%d", d))
		}
	}
	if n.Arg {
		ps = append(ps, fmt.Sprintf("a *A%d", k))
		names = append(names, "a")
	}
	return strings.Join(ps, ", "), names
}

// ProvidersSrc emits types and provider stubs (no wire import: this file is never set aside).
func (c *wCfg) ProvidersSrc(pkg string) string {
	var sb strings.Builder
	fmt.Fprintf(&sb, "package %s\n\nimport \"corpus/sym\"\n\nvar _ = sym.Tm\n\n", pkg)
	tdef := func(name string) {
		fmt.Fprintf(&sb, "type %s struct{ R string }\n\nfunc (t *%s) Term() string {\n\tif t == nil {\n\t\treturn \"nil\"\n\t}\n\treturn t.R\n}\n\n", name, name)
	}
	needTX := false
	for k, n := range c.Nodes {
		if n.Arg {
			tdef(fmt.Sprintf("A%d", k))
		}
		impl := fmt.Sprintf("T%d", k)
		switch {
		case isStructKind(n.Kind):
			impl = fmt.Sprintf("S%d", k)
			fmt.Fprintf(&sb, "type S%d struct {\n", k)
			var terms []string
			for _, f := range c.structFields(k) {
				fmt.Fprintf(&sb, "\t%s %s\n", f.Name, f.Type)
				terms = append(terms, "sym.Tm("+termArg("s."+f.Name, f.Type)+")")
			}
			if n.Kind == kSFp || n.Kind == kSFv {
				sb.WriteString("\tX *TX\n")
				terms = append(terms, `"X=" + sym.Tm(s.X)`)
				needTX = true
			}
			fmt.Fprintf(&sb, "}\n\nfunc (s *S%d) Term() string {\n\tif s == nil {\n\t\treturn \"nil\"\n\t}\n\treturn \"S%d{\" + %s + \"}\"\n}\n\n", k, k, strings.Join(terms, ` + "," + `))
		case n.Kind == kFV:
			// no type of its own: it returns T<Twin> by value
		default:
			tdef(impl)
		}
		switch {
		case hasSecond(n.Kind):
			tdef(fmt.Sprintf("U%d", k))
			fmt.Fprintf(&sb, "type C%d struct {\n\tA *T%d\n\tB *U%d\n}\n\n", k, k, k)
		case isFOKind(n.Kind):
			fmt.Fprintf(&sb, "type C%d struct {\n\tA *T%d\n\tB string\n}\n\n", k, k)
		}
		if n.Bind != "" || n.Kind == kIV {
			fmt.Fprintf(&sb, "type I%d interface {\n\tTerm() string\n\tM%d()\n}\n\nfunc (*%s) M%d() {}\n\n", k, k, impl, k)
		}
		name := c.funcName(k)
		decl, args := c.params(k)
		call := fmt.Sprintf("sym.Call(%q", name)
		for _, a := range args {
			call += ", " + a
		}
		call += ")"
		switch n.Kind {
		case kF:
			fmt.Fprintf(&sb, "func %s(%s) *T%d { return &T%d{R: %s} }\n\n", name, decl, k, k, call)
		case kFE:
			fmt.Fprintf(&sb, "func %s(%s) (*T%d, error) {\n\tif err := sym.FailIf(%q); err != nil {\n\t\treturn nil, err\n\t}\n\treturn &T%d{R: %s}, nil\n}\n\n", name, decl, k, name, k, call)
		case kFV:
			fmt.Fprintf(&sb, "func %s(%s) T%d { return T%d{R: %s} }\n\n", name, decl, n.Twin, n.Twin, call)
		case kFOvf:
			fmt.Fprintf(&sb, "func %s(%s) C%d { return C%d{A: &T%d{R: %s + \".A\"}, B: \"b\"} }\n\n", name, decl, k, k, k, call)
		case kFOpf:
			fmt.Fprintf(&sb, "func %s(%s) *C%d { return &C%d{A: &T%d{R: %s + \".A\"}, B: \"b\"} }\n\n", name, decl, k, k, k, call)
		}
		if n.Bind == "decoy" {
			// an unrelated constructor that merely carries the conventional name
			if n.Kind == kSAp {
				fmt.Fprintf(&sb, "func NewS%d() *S%d {\n\tsym.Call(\"NewS%d\")\n\treturn &S%d{}\n}\n\n", k, k, k, k)
			} else {
				fmt.Fprintf(&sb, "func NewT%d() *T%d { return &T%d{R: sym.Call(\"NewT%d\")} }\n\n", k, k, k, k)
			}
		}
	}
	if c.Extra {
		tdef("AX")
	}
	if needTX {
		tdef("TX")
	}
	if c.Pre != "" {
		tdef("PreOut")
		sb.WriteString("func NewPreUser(b string) *PreOut { return &PreOut{R: sym.Call(\"NewPreUser\")} }\n\n")
	}
	return sb.String()
}

// preNode is the FieldsOf node (pointer form) the earlier declaration of Pre shares its struct with; -1 if none.
func (c *wCfg) preNode() int {
	for k, n := range c.Nodes {
		if n.Kind == kFOpa || n.Kind == kFOpf {
			return k
		}
	}
	return -1
}

// elems returns the wire.Build / wire.NewSet elements of node k: providers and the Bind (separately).
func (c *wCfg) elems(k int) (prov []string, bind string) {
	n := c.Nodes[k]
	switch n.Kind {
	case kF, kFE, kFV:
		prov = []string{c.funcName(k)}
	case kV:
		prov = []string{fmt.Sprintf("wire.Value(T%d{R: \"val:T%d\"})", k, k)}
	case kVp:
		prov = []string{fmt.Sprintf("wire.Value(&T%d{R: \"val:T%d\"})", k, k)}
	case kIV:
		prov = []string{fmt.Sprintf("wire.InterfaceValue(new(I%d), &T%d{R: \"ival:T%d\"})", k, k, k)}
	case kSAp, kSAv:
		prov = []string{fmt.Sprintf("wire.Struct(new(S%d), \"*\")", k)}
	case kSFp, kSFv:
		var fs []string
		for _, f := range c.structFields(k) {
			fs = append(fs, fmt.Sprintf("%q", f.Name))
		}
		prov = []string{fmt.Sprintf("wire.Struct(new(S%d), %s)", k, strings.Join(fs, ", "))}
	case kFOva:
		prov = []string{fmt.Sprintf("wire.FieldsOf(new(C%d), \"A\")", k)}
	case kFOpa:
		prov = []string{fmt.Sprintf("wire.FieldsOf(new(*C%d), \"A\")", k)}
	case kFO2:
		prov = []string{fmt.Sprintf("wire.FieldsOf(new(*C%d), \"A\", \"B\")", k)}
	case kFOM:
		prov = []string{fmt.Sprintf("wire.FieldsOf(new(*C%d), \"A\")", k), fmt.Sprintf("wire.FieldsOf(new(*C%d), \"B\")", k)}
	case kFOvf:
		prov = []string{c.funcName(k), fmt.Sprintf("wire.FieldsOf(new(C%d), \"A\")", k)}
	case kFOpf:
		prov = []string{c.funcName(k), fmt.Sprintf("wire.FieldsOf(new(*C%d), \"A\")", k)}
	}
	if n.Bind != "" {
		impl := fmt.Sprintf("T%d", k)
		if isStructKind(n.Kind) {
			impl = fmt.Sprintf("S%d", k)
		}
		bind = fmt.Sprintf("wire.Bind(new(I%d), new(*%s))", k, impl)
	}
	return prov, bind
}

// injectorParams is the parameter list wire's injector is declared with.
func (c *wCfg) injectorParams() []wField {
	var ps []wField
	for k, n := range c.Nodes {
		if n.Arg {
			ps = append(ps, wField{fmt.Sprintf("a%d", k), fmt.Sprintf("*A%d", k)})
		}
		switch n.Kind {
		case kFOva:
			ps = append(ps, wField{fmt.Sprintf("c%d", k), fmt.Sprintf("C%d", k)})
		case kFOpa, kFO2, kFOM:
			ps = append(ps, wField{fmt.Sprintf("c%d", k), fmt.Sprintf("*C%d", k)})
		}
	}
	if c.Extra {
		ps = append(ps, wField{"ax", "*AX"})
	}
	return ps
}

func zeroOf(t string) string {
	if strings.HasPrefix(t, "*") || strings.HasPrefix(t, "I") {
		return "nil"
	}
	return t + "{}"
}

// WireFiles emits the wire configuration: wire.go (wireinject-tagged injector, sets) and, for
// sets=file, wire_sets.go.
func (c *wCfg) WireFiles(pkg string) map[string]string {
	var setPart, buildPart []string
	t := c.target()
	for k := range c.Nodes {
		prov, bind := c.elems(k)
		inSet := k != t || len(c.Nodes) == 1
		if inSet {
			setPart = append(setPart, prov...)
		} else {
			buildPart = append(buildPart, prov...)
		}
		if bind != "" {
			if inSet && c.BindAt != "build" {
				setPart = append(setPart, bind)
			} else {
				buildPart = append(buildPart, bind)
			}
		}
	}
	join := func(xs []string) string { return strings.Join(xs, ", ") }
	var sets, build string
	switch c.Sets {
	case "flat":
		build = join(append(append([]string{}, setPart...), buildPart...))
	case "inline":
		build = join(append([]string{"wire.NewSet(" + join(setPart) + ")"}, buildPart...))
	case "var", "file":
		sets = "var DepSet = wire.NewSet(" + join(setPart) + ")\n\n"
		build = join(append([]string{"DepSet"}, buildPart...))
	case "nested":
		sets = "var InnerSet = wire.NewSet(" + setPart[0] + ")\n\nvar DepSet = wire.NewSet(" + join(append([]string{"InnerSet"}, setPart[1:]...)) + ")\n\n"
		build = join(append([]string{"DepSet"}, buildPart...))
	}
	var ps []string
	for _, p := range c.injectorParams() {
		ps = append(ps, p.Name+" "+p.Type)
	}
	res, ret := c.resultType(), zeroOf(c.resultType())
	if c.Err {
		res, ret = "("+res+", error)", ret+", nil"
	}
	files := map[string]string{}
	hdr := "package " + pkg + "\n\nimport \"github.com/google/wire\"\n\n"
	inj := fmt.Sprintf("func Init(%s) %s {\n\twire.Build(%s)\n\treturn %s\n}\n", strings.Join(ps, ", "), res, build, ret)
	if c.Sets == "file" {
		files["wire_sets.go"] = hdr + sets
		sets = ""
	}
	pre := ""
	if k := c.preNode(); c.Pre != "" && k >= 0 {
		pre = fmt.Sprintf("// an earlier, unrelated set and injector that read ANOTHER field of the same struct\nvar PreSet = wire.NewSet(wire.FieldsOf(new(*C%d), \"B\"), NewPreUser)\n\nfunc PreInit(c *C%d) *PreOut {\n\twire.Build(PreSet)\n\treturn nil\n}\n\n", k, k)
	}
	files["wire.go"] = "//go:build wireinject\n\n" + hdr + pre + sets + inj
	return files
}

// argExpr builds the symbolic argument for an injector parameter of type t. The term does not depend
// on pointer-ness, so a value/pointer discrepancy in the signature does not also perturb the terms.
func (c *wCfg) argExpr(t string) (string, bool) {
	if t == "context.Context" {
		return "context.Background()", true
	}
	amp, base := "", t
	if strings.HasPrefix(t, "*") {
		amp, base = "&", t[1:]
	}
	if base == "AX" || base == "TX" {
		return fmt.Sprintf("%s%s{R: \"arg:%s\"}", amp, base, base), true
	}
	m := regexp.MustCompile(`^([TUSCIA])(\d+)$`).FindStringSubmatch(base)
	if m == nil {
		return "", false
	}
	k := 0
	fmt.Sscan(m[2], &k)
	if k >= len(c.Nodes) {
		return "", false
	}
	switch m[1] {
	case "T", "A", "U":
		return fmt.Sprintf("%s%s{R: \"arg:%s\"}", amp, base, base), true
	case "I":
		if amp != "" {
			return "", false
		}
		if isStructKind(c.Nodes[k].Kind) {
			return c.argExpr(fmt.Sprintf("*S%d", k))
		}
		return fmt.Sprintf("&T%d{R: \"arg:I%d\"}", k, k), true
	case "C":
		if !isFOKind(c.Nodes[k].Kind) {
			return "", false
		}
		if hasSecond(c.Nodes[k].Kind) {
			return fmt.Sprintf("%sC%d{A: &T%d{R: \"arg:C%d.A\"}, B: &U%d{R: \"arg:C%d.B\"}}", amp, k, k, k, k, k), true
		}
		return fmt.Sprintf("%sC%d{A: &T%d{R: \"arg:C%d.A\"}, B: \"b\"}", amp, k, k, k), true
	case "S":
		if !isStructKind(c.Nodes[k].Kind) {
			return "", false
		}
		var parts []string
		for _, f := range c.structFields(k) {
			e, ok := c.argExpr(f.Type)
			if !ok {
				return "", false
			}
			parts = append(parts, f.Name+": "+e)
		}
		return fmt.Sprintf("%sS%d{%s}", amp, k, strings.Join(parts, ", ")), true
	}
	return "", false
}

// injSig is the signature of a generated injector as read back from the generated file.
type injSig struct {
	Params  []wField
	Used    []bool // parameter referenced in the body
	Results []string
}

func (s *injSig) hasErr() bool {
	return len(s.Results) == 2 && s.Results[1] == "error"
}

// parseInjector reads function name from a generated Go file.
func parseInjector(path, name string) (*injSig, error) {
	fset := token.NewFileSet()
	f, err := parser.ParseFile(fset, path, nil, parser.SkipObjectResolution)
	if err != nil {
		return nil, err
	}
	for _, d := range f.Decls {
		fd, ok := d.(*ast.FuncDecl)
		if !ok || fd.Recv != nil || fd.Name.Name != name {
			continue
		}
		sig := &injSig{}
		for _, fl := range fd.Type.Params.List {
			t := types.ExprString(fl.Type)
			if len(fl.Names) == 0 {
				sig.Params = append(sig.Params, wField{"_", t})
			}
			for _, n := range fl.Names {
				sig.Params = append(sig.Params, wField{n.Name, t})
			}
		}
		if fd.Type.Results != nil {
			for _, fl := range fd.Type.Results.List {
				n := len(fl.Names)
				if n == 0 {
					n = 1
				}
				for i := 0; i < n; i++ {
					sig.Results = append(sig.Results, types.ExprString(fl.Type))
				}
			}
		}
		used := map[string]bool{}
		if fd.Body != nil {
			ast.Inspect(fd.Body, func(n ast.Node) bool {
				if id, ok := n.(*ast.Ident); ok {
					used[id.Name] = true
				}
				return true
			})
		}
		for _, p := range sig.Params {
			sig.Used = append(sig.Used, used[p.Name])
		}
		return sig, nil
	}
	return nil, fmt.Errorf("function %s not found in %s", name, filepath.Base(path))
}

// driverSrc generates the registration file that calls the injector with symbolic arguments.
func (c *wCfg) driverSrc(pkg, id string, sig *injSig) (string, error) {
	var args []string
	needCtx := false
	for _, p := range sig.Params {
		e, ok := c.argExpr(p.Type)
		if !ok {
			return "", fmt.Errorf("cannot construct an argument of type %s", p.Type)
		}
		if p.Type == "context.Context" {
			needCtx = true
		}
		args = append(args, e)
	}
	imports := "\t\"corpus/sym\"\n"
	if needCtx {
		imports = "\t\"context\"\n\n" + imports
	}
	call := "Init(" + strings.Join(args, ", ") + ")"
	var body string
	switch {
	case sig.hasErr():
		body = fmt.Sprintf("\t\tv, err := %s\n\t\tif err != nil {\n\t\t\treturn \"\", err, true\n\t\t}\n\t\treturn sym.Tm(%s), nil, true\n", call, termArg("v", sig.Results[0]))
	case len(sig.Results) == 1:
		body = fmt.Sprintf("\t\tv := %s\n\t\treturn sym.Tm(%s), nil, false\n", call, termArg("v", sig.Results[0]))
	default:
		return "", fmt.Errorf("injector has results %v", sig.Results)
	}
	return fmt.Sprintf("// Driver generated by verif. DO NOT EDIT.\n\npackage %s\n\nimport (\n%s)\n\nfunc init() {\n\tsym.Register(%q, func() (string, error, bool) {\n%s\t})\n}\n", pkg, imports, id, body), nil
}

// ---------------------------------------------------------------------------------------------
// tools and scratch module

// wireEnv is everything a run needs to drive the real tools on generated packages.
type wireEnv struct {
	env  *pipe.Env
	Wire string // built google/wire CLI
	Dir  string // scratch module "corpus"
}

const wireToolMod = `module wirebuild

go 1.25.5

require (
	github.com/google/subcommands v1.2.0
	github.com/google/wire v0.7.0
	github.com/pmezard/go-difflib v1.0.0
	golang.org/x/tools v0.42.0
)
`

// repoSums concatenates the go.sum files of /repo (the module cache holds everything they name).
func repoSums() []byte {
	a, _ := os.ReadFile(filepath.Join(pipe.RepoDir(), "go.sum"))
	b, _ := os.ReadFile(filepath.Join(pipe.RepoDir(), "tools", "go.sum"))
	return append(append(a, '\n'), b...)
}

// buildWire builds google/wire's CLI offline from the module cache, once per work directory.
func buildWire(env *pipe.Env) string {
	bin := filepath.Join(env.Work, "bin", "wire")
	unlock := env.Lock("build-wire")
	defer unlock()
	if _, err := os.Stat(bin); err == nil {
		return bin
	}
	dir := filepath.Join(env.Work, "wirebuild")
	mustOK(os.MkdirAll(dir, 0o755))
	mustOK(os.WriteFile(filepath.Join(dir, "go.mod"), []byte(wireToolMod), 0o644))
	mustOK(os.WriteFile(filepath.Join(dir, "go.sum"), repoSums(), 0o644))
	tmp := bin + fmt.Sprintf(".tmp%d", os.Getpid())
	if out, err := pipe.RunGo(dir, "build", "-buildvcs=false", "-o", tmp, "github.com/google/wire/cmd/wire"); err != nil {
		fmt.Printf("SETUP-FAILED: google/wire's CLI does not build offline:\n%s\n", out)
		os.Exit(2)
	}
	mustOK(os.Rename(tmp, bin))
	return bin
}

func mustOK(err error) {
	if err != nil {
		panic(err)
	}
}

// newWireEnv prepares the tools and a scratch module that can import wire, kessoku and corpus/sym.
func newWireEnv(tag, tier string) *wireEnv {
	env := pipe.Setup()
	we := &wireEnv{env: env, Wire: buildWire(env)}
	we.Dir = filepath.Join(env.Work, fmt.Sprintf("%s-%s-%d", tag, tier, os.Getpid()))
	_ = os.RemoveAll(we.Dir)
	mustOK(os.MkdirAll(filepath.Join(we.Dir, "sym"), 0o755))
	mod := fmt.Sprintf(`module corpus

go 1.25.5

require (
	github.com/google/wire v0.7.0
	github.com/mazrean/kessoku v0.0.0
	golang.org/x/sync %s
)

replace github.com/mazrean/kessoku => %s
`, env.SyncVer, pipe.RepoDir())
	mustOK(os.WriteFile(filepath.Join(we.Dir, "go.mod"), []byte(mod), 0o644))
	mustOK(os.WriteFile(filepath.Join(we.Dir, "go.sum"), repoSums(), 0o644))
	// Everything below compiles tens of thousands of throw-away packages (the tools' own
	// `go list -export` runs included): all of it goes to verif's bounded bulk build cache, never to
	// the shared ~/.cache/go-build. pipe.RunGo selects it by itself; the tools inherit it from our
	// environment (runTool and pipe.GoEnv derive the children's environment from ours).
	pipe.MaintainBulkCache()
	mustOK(os.Setenv("GOCACHE", pipe.BulkCache))
	mustOK(os.WriteFile(filepath.Join(we.Dir, "sym", "sym.go"), []byte(symSrc), 0o644))
	mustOK(os.MkdirAll(filepath.Join(we.Dir, "symrun"), 0o755))
	mustOK(os.WriteFile(filepath.Join(we.Dir, "symrun", "symrun.go"), []byte(symRunSrc), 0o644))
	// settle go.mod/go.sum once (a package that imports both libraries), so that the parallel tool
	// runs below never race on rewriting them
	warm := filepath.Join(we.Dir, "warm")
	mustOK(os.MkdirAll(warm, 0o755))
	mustOK(os.WriteFile(filepath.Join(warm, "warm.go"), []byte("package warm\n\nimport (\n\t_ \"corpus/sym\"\n\t_ \"github.com/google/wire\"\n\t_ \"github.com/mazrean/kessoku\"\n)\n"), 0o644))
	if out, err := pipe.RunGo(we.Dir, "build", "-buildvcs=false", "./warm", "./sym", "./symrun"); err != nil {
		fmt.Printf("SETUP-FAILED: scratch module for wire does not build:\n%s\n", out)
		os.Exit(2)
	}
	return we
}

func (we *wireEnv) Cleanup() { _ = os.RemoveAll(we.Dir) }

// runTool runs a binary in dir with the pinned toolchain environment.
func runTool(dir string, extraEnv []string, bin string, args ...string) (int, string) {
	code, out := 0, ""
	for attempt := 0; attempt < 3; attempt++ {
		cmd := exec.Command(bin, args...)
		cmd.Dir = dir
		cmd.Env = pipe.GoEnv(append([]string{"GOMAXPROCS=2"}, extraEnv...)...)
		var buf bytes.Buffer
		cmd.Stdout = &buf
		cmd.Stderr = &buf
		err := cmd.Run()
		code = 0
		if err != nil {
			if ee, ok := err.(*exec.ExitError); ok {
				code = ee.ExitCode()
			} else {
				code = -1
				buf.WriteString(err.Error())
			}
		}
		out = buf.String()
		// a tool whose `go list -export` child lost the shared bulk cache to a concurrent reset did not
		// judge the input at all: run it again
		if code == 0 || !(strings.Contains(out, pipe.BulkCache) && strings.Contains(out, "no such file or directory")) {
			break
		}
	}
	return code, out
}

// bulkBuild runs `go <args>` in dir like pipe.RunGo, and repeats it when the output shows that the
// shared bulk build cache was reset underneath it by a concurrent check (pipe.MaintainBulkCache
// removes the directory): such a failure says nothing about the packages being compiled.
func bulkBuild(dir string, args ...string) ([]byte, error) {
	var out []byte
	var err error
	for attempt := 0; attempt < 3; attempt++ {
		out, err = pipe.RunGo(dir, args...)
		if err == nil || !(strings.Contains(string(out), pipe.BulkCache) && strings.Contains(string(out), "no such file or directory")) {
			break
		}
	}
	return out, err
}

// RunWire runs `wire gen .` in dir.
func (we *wireEnv) RunWire(dir string) (int, string) {
	return runTool(dir, nil, we.Wire, "gen", ".")
}

// RunMigrate runs `kessoku migrate -o <out> <patterns>` in dir.
func (we *wireEnv) RunMigrate(dir, out string, extraEnv []string, patterns ...string) (int, string) {
	args := append([]string{"-l", "error", "migrate", "-o", out}, patterns...)
	return runTool(dir, extraEnv, we.env.Kessoku, args...)
}

// RunGenerate runs `kessoku <files>` in dir.
func (we *wireEnv) RunGenerate(dir string, files ...string) (int, string) {
	return runTool(dir, nil, we.env.Kessoku, append([]string{"-l", "error"}, files...)...)
}

// isWireFile reports whether a Go source imports google/wire (such files are "set aside" after the
// migration: they would redeclare the migrated sets and cannot coexist with the generated injector).
func isWireFile(src string) bool {
	return strings.Contains(src, "\"github.com/google/wire\"")
}

var reDigits = regexp.MustCompile(`\d+`)

// generalize strips indices from a type or message so that it can serve in a mechanism signature.
func generalize(s string) string { return reDigits.ReplaceAllString(s, "") }

// toolMessage returns the last non-empty line of a tool's output with paths, positions and the
// scratch packages' qualifiers removed.
func toolMessage(out string) string {
	lines := strings.Split(strings.TrimSpace(out), "\n")
	for i := len(lines) - 1; i >= 0; i-- {
		l := strings.TrimSpace(lines[i])
		if l == "" {
			continue
		}
		l = regexp.MustCompile(`[\w./\-]*corpus/\w+/\w+\.`).ReplaceAllString(l, "")
		l = regexp.MustCompile(`/\S+/`).ReplaceAllString(l, "")
		l = regexp.MustCompile(`\S+\.go:\d+(:\d+)?:?\s*`).ReplaceAllString(l, "")
		if len(l) > 200 {
			l = l[:200]
		}
		return l
	}
	return ""
}
