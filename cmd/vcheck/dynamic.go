package main

import (
	"fmt"
	"os"
	"sort"
	"strings"

	"verif/explore"
	"verif/internal/pipe"
)

// dynProp describes how one of the schedule-quantified properties reads exploration results.
type dynProp struct {
	families func(thorough bool) string
	// kinds maps an observation kind to true when this property owns it in the given scenario family.
	owns func(family, kind string) bool
	// applies selects the cases the property quantifies over.
	applies func(it *pipe.Item) bool
	text    string
}

func family(scenario string) string {
	if i := strings.IndexByte(scenario, ':'); i >= 0 {
		return scenario[:i]
	}
	return scenario
}

func set(ks ...string) map[string]bool {
	m := map[string]bool{}
	for _, k := range ks {
		m[k] = true
	}
	return m
}

var dynProps = map[string]*dynProp{
	"C01": {
		families: func(bool) string { return "free" },
		owns: func(f, k string) bool {
			return f == "free" && set("dep-not-exited", "wrong-args", "race", "read-before-write", "panic")[k]
		},
		applies: func(it *pipe.Item) bool { return true },
		text:    "at every provider entry: all producers have exited and the received argument terms equal the producers' result terms; no co-enabled conflicting accesses; no read of a never-written shared variable",
	},
	"C02": {
		families: func(bool) string { return "free" },
		owns: func(f, k string) bool {
			return f == "free" && set("wrong-result", "unexpected-call", "duplicate-call", "missing-call", "unexpected-error", "wrong-args")[k]
		},
		applies: func(it *pipe.Item) bool { return true },
		text:    "result term equals the reference interpreter's term; every needed provider called exactly once with the reference's argument terms, no other provider called; declarations differing only in Async marks / Set grouping / order return the same term",
	},
	"C03": {
		families: func(bool) string { return "free" },
		owns: func(f, k string) bool {
			return f == "free" && set("deadlock", "double-close", "close-nil", "unjoined-goroutine", "negative-waitgroup", "send-on-closed", "panic", "leak")[k]
		},
		applies: func(it *pipe.Item) bool { return true },
		text:    "no reachable state without an enabled thread before the injector returned; no channel closed twice; every spawned goroutine has ended when the injector returns",
	},
	"C05": {
		families: func(bool) string { return "free" },
		owns:     func(f, k string) bool { return false },
		applies:  func(it *pipe.Item) bool { return len(it.Ref.InputFree) >= 1 },
		text:     "reachable state set contains a state with all input-free Async providers inside their function; no input-free Async provider is, in every execution, entered only after another Async provider exited",
	},
	"C06": {
		families: func(bool) string { return "fault" },
		owns: func(f, k string) bool {
			return f == "fault" && set("error-swallowed", "substitute-error", "entered-after-failure", "deadlock", "panic")[k]
		},
		applies: func(it *pipe.Item) bool { return it.Ref.HasErr },
		text:    "with failing providers F: the injector returns, the error is non-nil and is the sentinel of a provider that failed in this execution, and no provider depending on a failed one is entered",
	},
	"C07": {
		families: func(bool) string { return "cancel" },
		owns: func(f, k string) bool {
			return f == "cancel" && set("deadlock", "partial-result", "wrong-result", "missing-call", "panic")[k]
		},
		applies: func(it *pipe.Item) bool { return it.Ref.NeededAsync },
		text:    "with the caller's context cancelled at any point (including before the call): the injector returns, and it returns either an error or the complete reference term",
	},
	"C08": {
		families: func(th bool) string {
			if th {
				return "free,fault,cancel,cancel+fault"
			}
			return "free,fault,cancel"
		},
		owns:    func(f, k string) bool { return k == "leak" },
		applies: func(it *pipe.Item) bool { return true },
		text:    "exploration continues after the injector returned (no further caller action): no terminal state has a live goroutine",
	},
}

func precondition(it *pipe.Item, r *explore.Result) string {
	var p []string
	if it.Ref.HasErr {
		p = append(p, "error-result")
	} else {
		p = append(p, "no-error-result")
	}
	switch family(r.Scenario) {
	case "fault":
		p = append(p, "provider-failure", "caller-not-cancelled")
	case "cancel":
		p = append(p, "caller-cancels")
	case "cancel+fault":
		p = append(p, "provider-failure", "caller-cancels")
	default:
		p = append(p, "fault-free")
	}
	return strings.Join(p, ",")
}

// normBlocked reduces "g1:select(t0Ch|ctx1.Done) g2:recv(t1Ch)" to the operation shapes.
func normBlocked(b string) string {
	if b == "" {
		return ""
	}
	var out []string
	for _, part := range strings.Fields(b) {
		i := strings.IndexByte(part, ':')
		th, op := part[:i], part[i+1:]
		role := "goroutine"
		if th == "main" {
			role = "main"
		}
		switch {
		case strings.HasPrefix(op, "select(") && strings.Contains(op, ".Done"):
			op = "select(ch|ctx.Done)"
		case strings.HasPrefix(op, "select("):
			op = "select(ch)"
		case strings.HasPrefix(op, "recv("):
			op = "recv(ch)"
		}
		out = append(out, role+":"+op)
	}
	sort.Strings(out)
	// dedupe
	var d []string
	for i, s := range out {
		if i == 0 || s != out[i-1] {
			d = append(d, s)
		}
	}
	return strings.Join(d, "+")
}

func runDynamic(id string, args []string) {
	tier := parseTier(args)
	rc := newRunCtx(id, tier)
	rc.Level = "model_checking"
	rc.GroupByPre = true
	prop := dynProps[id]
	env := pipe.Setup()
	corpus := env.BuildCorpus(tier)
	fams := prop.families(rc.Thorough())
	explorer := "state-caching search over all interleavings (standard universe); dynamic partial-order reduction for the large shapes (block L)"
	if rc.Thorough() && os.Getenv("VERIF_POR") == "" {
		// thorough: the universe is ten times larger and every fault subset is tried; all of it is explored per
		// Mazurkiewicz trace (DPOR + sleep sets, cross-validated against the full search on the quick universe)
		os.Setenv("VERIF_POR", "on")
	}
	switch os.Getenv("VERIF_POR") {
	case "on":
		explorer = "dynamic partial-order reduction with sleep sets (one interleaving per Mazurkiewicz trace, oracles on happens-before) for every case"
	case "both":
		explorer = "state-caching search over all interleavings, each case also explored with dynamic partial-order reduction and the two compared"
	}
	results, err := corpus.Explore(fams, rc.Thorough(), 300000)
	if err != nil {
		fmt.Println("EXPLORER-FAILED:", err)
		os.Exit(2)
	}
	var states, trans, execs, capped, cases, nontrivial, unsupported int
	skippedUncompilable, skippedRefused := 0, 0
	for _, it := range corpus.Items {
		if !prop.applies(it) {
			continue
		}
		switch {
		case it.GenExit != 0 || !it.HasBand:
			skippedRefused++
		case !it.Runnable:
			skippedUncompilable++
		}
	}
	outcomeKinds := map[string]int{}
	byCase := map[string][]*explore.Result{}
	type sample struct {
		Decl      string            `json:"declaration"`
		Scenario  string            `json:"scenario"`
		States    int               `json:"states"`
		Trans     int               `json:"transitions"`
		Execs     int               `json:"executions"`
		Threads   int               `json:"threads"`
		Outcomes  []explore.Outcome `json:"outcomes"`
		Overlap   string            `json:"overlap,omitempty"`
		Generated string            `json:"generated_file,omitempty"`
	}
	var samples []sample
	var interesting []*explore.Result
	for _, r := range results {
		it := corpus.ByPkg[r.Pkg]
		if it == nil || !prop.applies(it) {
			continue
		}
		if r.Unsupported != "" {
			unsupported++
			continue
		}
		byCase[r.Pkg] = append(byCase[r.Pkg], r)
		states += r.States
		trans += r.Transitions
		execs += r.Execs
		if r.Capped {
			capped++
		}
		if r.CoEnabled {
			nontrivial++
			interesting = append(interesting, r)
		}
		for _, o := range r.Outcomes {
			outcomeKinds[family(r.Scenario)+"/"+o.Site+"/"+errClass(o.Err)]++
		}
		fam := family(r.Scenario)
		for _, o := range r.Obs {
			if !prop.owns(fam, o.Kind) {
				continue
			}
			if !o.Stable {
				rc.Notes = append(rc.Notes, fmt.Sprintf("observation %s on %s did not replay identically twice; discarded (machinery defect, not a verdict)", o.Kind, r.Pkg))
				continue
			}
			kind := o.Kind
			if id == "C07" && kind == "wrong-result" {
				kind = "partial-result"
			}
			site := o.Site
			if o.Blocked != "" {
				if site != "" {
					site += " "
				}
				site += "blocked=" + normBlocked(o.Blocked)
			}
			rc.Add(Finding{Kind: kind, Site: site, Pre: precondition(it, r), Detail: o.Detail + " " + o.Blocked,
				Witness: it.Spec + " [" + r.Scenario + "]",
				Replay:  map[string]any{"decl": it.Decl, "scenario": r.Scenario, "schedule": o.Schedule, "event_log": o.Log, "generated": readFile(corpus.BandPath(it))}})
		}
	}
	cases = len(byCase)

	switch id {
	case "C02":
		// metamorphic buckets: same declared graph, different Async marks / grouping / order
		buckets := map[string]map[string][]string{}
		for pkg, rs := range byCase {
			it := corpus.ByPkg[pkg]
			for _, r := range rs {
				for _, o := range r.Outcomes {
					k := it.Decl.SemKey()
					if buckets[k] == nil {
						buckets[k] = map[string][]string{}
					}
					buckets[k][o.Term+"/"+o.Err] = append(buckets[k][o.Term+"/"+o.Err], it.Spec)
				}
			}
		}
		multi := 0
		for k, terms := range buckets {
			n := 0
			for _, v := range terms {
				n += len(v)
			}
			if n > 1 {
				multi++
			}
			if len(terms) > 1 {
				var ts []string
				for t := range terms {
					ts = append(ts, t)
				}
				sort.Strings(ts)
				rc.Add(Finding{Kind: "metamorphic-mismatch", Detail: "declarations of one graph returned different values: " + strings.Join(ts, " vs "), Witness: terms[ts[0]][0] + " <> " + terms[ts[1]][0] + " (graph " + k + ")"})
			}
		}
		rc.Coverage["metamorphic_buckets"] = len(buckets)
		rc.Coverage["metamorphic_buckets_with_several_declarations"] = multi
	case "C05":
		checked, multi := 0, 0
		for pkg, rs := range byCase {
			it := corpus.ByPkg[pkg]
			for _, r := range rs {
				if r.Capped {
					continue // existential oracle: only valid on a complete search
				}
				checked++
				if len(it.Ref.InputFree) >= 2 {
					multi++
					if !r.OverlapAll {
						rc.Add(Finding{Kind: "no-overlap", Pre: precondition(it, r), Detail: fmt.Sprintf("%d input-free Async providers, but no reachable state has more than %d of them inside their function", len(it.Ref.InputFree), r.MaxOverlap), Witness: it.Spec,
							Replay: map[string]any{"decl": it.Decl, "scenario": r.Scenario, "generated": readFile(corpus.BandPath(it))}})
					}
				}
				if len(r.ForcedAfter) > 0 {
					rc.Add(Finding{Kind: "forced-order", Pre: precondition(it, r), Detail: "input-free Async provider only ever starts after another Async provider has returned: " + strings.Join(r.ForcedAfter, " "), Witness: it.Spec,
						Replay: map[string]any{"decl": it.Decl, "scenario": r.Scenario, "generated": readFile(corpus.BandPath(it))}})
				}
			}
		}
		rc.Coverage["cases_with_two_or_more_input_free_async"] = multi
		rc.Coverage["cases_checked_on_complete_search"] = checked
	}

	// samples: a few interesting runs, written out
	sort.Slice(interesting, func(i, j int) bool { return interesting[i].States > interesting[j].States })
	for _, r := range pick(interesting, 4, rc.Seed) {
		it := corpus.ByPkg[r.Pkg]
		s := sample{Decl: it.Spec, Scenario: r.Scenario, States: r.States, Trans: r.Transitions, Execs: r.Execs, Threads: r.Threads, Outcomes: r.Outcomes}
		if len(it.Ref.InputFree) > 0 {
			s.Overlap = fmt.Sprintf("%d of %d input-free Async providers simultaneously inside", r.MaxOverlap, len(it.Ref.InputFree))
		}
		samples = append(samples, s)
	}
	if len(samples) > 0 {
		it := corpus.ByPkg[pick(interesting, 4, rc.Seed)[0].Pkg]
		samples[0].Generated = readFile(corpus.BandPath(it))
	}
	if len(samples) == 0 {
		samples = append(samples, sample{Decl: "(no concurrent case in this selection)"})
	}
	// conformance pass (DESIGN §2.7): explored traces replayed on the uninstrumented artefact under -race.
	// It decides whether SILENCE can be trusted. Violations found by the explorer carry their own replayable
	// schedule and are reported whatever this pass says (a change that introduces a data race also makes the
	// race detector speak up here, which is agreement, not a machinery failure).
	haveViolations := rc.Unsuppressed() > 0
	confFail := func(msg string) {
		if haveViolations {
			rc.Notes = append(rc.Notes, "conformance pass: "+msg+" (violations below are reported from the exploration itself)")
			return
		}
		fmt.Println(msg)
		os.Exit(2)
	}
	conf := &pipe.ConformResult{}
	if _, err := env.BuildFreeRunner(corpus); err != nil {
		confFail(fmt.Sprint("CONFORMANCE-FAILED (machinery, not a verdict): ", err))
	} else {
		var confPkgs []string
		for _, pkg := range corpus.FreePkgs() {
			if it := corpus.ByPkg[pkg]; it != nil && prop.applies(it) {
				confPkgs = append(confPkgs, pkg)
			}
		}
		nConf, perSet := 24, 6
		if rc.Thorough() {
			nConf, perSet = 160, 10
		}
		var largePkgs, smallPkgs []string
		for _, pkg := range confPkgs {
			if it := corpus.ByPkg[pkg]; it != nil && it.Decl.Large {
				largePkgs = append(largePkgs, pkg)
			} else {
				smallPkgs = append(smallPkgs, pkg)
			}
		}
		// the large shapes (complete fault-free orders, one per Mazurkiewicz trace) next to the small ones
		confPkgs = append(pick(smallPkgs, nConf, rc.Seed), pick(largePkgs, 6, rc.Seed)...)
		confFams := fams
		if id == "C08" && !rc.Thorough() {
			confFams = "fault,cancel"
		}
		c2, cerr := env.Conform(corpus, confPkgs, confFams, rc.Thorough(), perSet)
		switch {
		case cerr != nil:
			confFail(fmt.Sprint("CONFORMANCE-FAILED (machinery, not a verdict): ", cerr))
		case len(c2.Mismatches) > 0 || len(c2.RaceReports) > 0:
			conf = c2
			var msgs []string
			for _, m := range c2.Mismatches {
				msgs = append(msgs, "CONFORMANCE-MISMATCH: "+m)
			}
			for _, m := range c2.RaceReports {
				msgs = append(msgs, "CONFORMANCE-MISMATCH: the race detector reports a data race the explorer does not find: "+m)
			}
			confFail(strings.Join(msgs, "\n") + "\nthe instrumented model does not represent the generated code faithfully; no verdict is given")
		default:
			conf = c2
		}
	}
	rc.Coverage["conformance"] = map[string]any{"cases": conf.Cases, "trace_sets_enumerated_without_pruning": conf.TraceSets, "trace_sets_skipped_cap": conf.SkippedCap, "traces_forced_on_real_injector": conf.Forced, "validated": conf.Validated, "inconclusive": conf.Inconclusive, "samples": conf.Samples,
		"how": "every selected case: ALL (provider-level trace, outcome) pairs enumerated by an unpruned exploration; a spread of traces is forced on the byte-identical generated file (real errgroup/channels/context, -race) by gating the provider stubs, up to the first cancellation or provider failure; the observed trace and outcome must be among the enumerated pairs and the race detector must stay silent where the explorer found no race"}
	rc.Coverage["states"] = states
	rc.Coverage["transitions"] = trans
	rc.Coverage["traces_validated_against_impl"] = conf.Validated
	rc.Coverage["samples"] = samples
	rc.Coverage["evaluations"] = execs
	rc.Coverage["distinct_nontrivial"] = nontrivial
	rc.Coverage["rule"] = "declaration universe of DESIGN §2.1 (tier " + tier + "), every member generated by the real CLI, instrumented and explored over ALL interleavings per scenario family [" + fams + "] with state-key pruning; a (declaration, scenario) pair is non-trivial when some reachable state has two different threads enabled. Oracle: " + prop.text
	rc.Coverage["explorer"] = explorer
	porRuns, porDiffs := 0, 0
	for _, r := range results {
		if r.POR {
			porRuns++
		}
		if r.PORDiff != "" {
			porDiffs++
			rc.Notes = append(rc.Notes, "the two explorers disagree on "+r.Pkg+" ["+r.Scenario+"]: "+r.PORDiff)
		}
	}
	rc.Coverage["scenario_runs_explored_with_partial_order_reduction"] = porRuns
	if os.Getenv("VERIF_POR") == "both" {
		rc.Coverage["explorer_disagreements"] = porDiffs
		if porDiffs > 0 && rc.Unsuppressed() == 0 {
			fmt.Printf("EXPLORER-DISAGREEMENT: the state-caching and the partial-order-reducing explorer differ on %d scenario runs (machinery defect, no verdict)\n", porDiffs)
			os.Exit(2)
		}
	}
	rc.Coverage["exhaustive"] = capped == 0
	rc.Coverage["declarations_in_universe"] = len(corpus.Items)
	rc.Coverage["declarations_explored"] = cases
	rc.Coverage["scenario_runs"] = len(results)
	rc.Coverage["runs_capped"] = capped
	rc.Coverage["skipped_uncompilable"] = skippedUncompilable
	rc.Coverage["skipped_refused_by_generator"] = skippedRefused
	rc.Coverage["unsupported_construct"] = unsupported
	rc.Coverage["distinct_outcome_classes"] = outcomeKinds
	rc.Coverage["tree_hash"] = env.Hash
	rc.Assume = []string{
		"sequential consistency; data races are detected as co-enabled conflicting accesses in a reachable state (complete under full exploration)",
		"providers are stubs that always return; they yield at entry and exit (arbitrary latency), return symbolic terms, and fail only as the fault scenario says",
		"the instrumented copy is the generated file with synchronisation routed through verif/sched by a strict syntax-directed rewrite; errgroup is the real source over vsync/vctx shims",
		"bounded declaration universe (provider count, feature toggles) as listed in rule",
	}
	if s := pipe.RepoStatus(); s != "" && os.Getenv("VERIF_ALLOW_DIRTY") == "" {
		rc.Notes = append(rc.Notes, "git status of /repo is not clean (expected when a change under test is applied): "+strings.ReplaceAll(strings.TrimSpace(s), "\n", "; "))
	}
	rc.Finish()
}

func errClass(e string) string {
	switch {
	case e == "":
		return "ok"
	case strings.HasPrefix(e, "fail:"):
		return "provider-error"
	case e == "context canceled":
		return "context-canceled"
	}
	return "other-error"
}

func readFile(p string) string {
	b, err := os.ReadFile(p)
	if err != nil {
		return ""
	}
	return string(b)
}
