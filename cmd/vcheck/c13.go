package main

// C13 — migration preserves what google/wire would have built.
//
// For every configuration of the wire universe (wirecfg.go) the REAL tools are run: google/wire's CLI
// produces wire_gen.go (configurations wire rejects are outside the domain and only counted); in a
// copy of the package `kessoku migrate` produces kessoku.go and `kessoku kessoku.go` the injector.
// Both copies are compiled into one runner binary and executed with the same symbolic arguments:
// once fault-free and once per provider that can fail. The oracle compares result terms, provider
// call multisets, injector parameter types and the identity of the reported error.

import (
	"encoding/json"
	"fmt"
	"os"
	"os/exec"
	"path/filepath"
	"sort"
	"strconv"
	"strings"
	"time"

	"verif/internal/pipe"
)

// c13Case is one configuration with everything the pipeline observed.
type c13Case struct {
	Cfg *wCfg
	Pkg string

	WireExit int
	WireOut  string
	MigExit  int
	MigOut   string
	GenExit  int
	GenOut   string

	Kessoku string // migrated kessoku.go
	Band    string // generated kessoku_band.go
	WireGen string

	WSig, KSig *injSig
	DriveErr   string // the harness could not build a driver for the kessoku copy
	WCompile   string
	KCompile   string

	stage string // how far the configuration got
}

// symRec mirrors sym.Rec.
type symRec struct {
	ID         string   `json:"id"`
	Fail       string   `json:"fail"`
	Term       string   `json:"term"`
	Log        []string `json:"log"`
	HasErr     bool     `json:"has_err"`
	Err        string   `json:"err"`
	IsSentinel bool     `json:"is_sentinel"`
	Panic      string   `json:"panic"`
}

func (cs *c13Case) replay(extra map[string]any) map[string]any {
	files := map[string]string{"providers.go": cs.Cfg.ProvidersSrc(cs.Pkg)}
	for n, s := range cs.Cfg.WireFiles(cs.Pkg) {
		files[n] = s
	}
	m := map[string]any{"config": cs.Cfg, "sources": files, "wire_gen.go": cs.WireGen, "kessoku.go": cs.Kessoku, "kessoku_band.go": cs.Band,
		"how": "put the sources into a package of a module that requires github.com/google/wire v0.7.0 and kessoku; `wire gen .`; in a copy: `kessoku migrate -o kessoku.go .`, remove the files importing wire, `kessoku kessoku.go`; compare the two Init functions"}
	for k, v := range extra {
		m[k] = v
	}
	return m
}

// runWirePipeline runs wire / migrate / generate for every case and compiles both copies. It is
// shared with C14 (which only looks at the migrate step of the same configurations).
func runWirePipeline(we *wireEnv, cases []*c13Case) {
	pipe.Parallel(len(cases), 24, func(i int) {
		cs := cases[i]
		cs.Pkg = fmt.Sprintf("c%05d", i)
		wd := filepath.Join(we.Dir, "w", cs.Pkg)
		kd := filepath.Join(we.Dir, "k", cs.Pkg)
		mustOK(os.MkdirAll(wd, 0o755))
		mustOK(os.MkdirAll(kd, 0o755))
		prov := cs.Cfg.ProvidersSrc(cs.Pkg)
		wfiles := cs.Cfg.WireFiles(cs.Pkg)
		for _, d := range []string{wd, kd} {
			mustOK(os.WriteFile(filepath.Join(d, "providers.go"), []byte(prov), 0o644))
			for n, s := range wfiles {
				mustOK(os.WriteFile(filepath.Join(d, n), []byte(s), 0o644))
			}
		}
		// 1. the reference: google/wire
		cs.stage = "wire"
		cs.WireExit, cs.WireOut = we.RunWire(wd)
		cs.WireGen = readFile(filepath.Join(wd, "wire_gen.go"))
		if cs.WireExit != 0 || cs.WireGen == "" {
			_ = os.RemoveAll(wd)
			_ = os.RemoveAll(kd)
			return
		}
		// 2. the migration, in the copy
		cs.stage = "migrate"
		cs.MigExit, cs.MigOut = we.RunMigrate(kd, "kessoku.go", nil, ".")
		cs.Kessoku = readFile(filepath.Join(kd, "kessoku.go"))
		if cs.MigExit != 0 || cs.Kessoku == "" {
			_ = os.RemoveAll(kd)
			_ = os.RemoveAll(wd)
			return
		}
		for n := range wfiles {
			mustOK(os.Remove(filepath.Join(kd, n))) // the wire files are set aside
		}
		cs.stage = "generate"
		cs.GenExit, cs.GenOut = we.RunGenerate(kd, "kessoku.go")
		cs.Band = readFile(filepath.Join(kd, "kessoku_band.go"))
		if cs.GenExit != 0 || cs.Band == "" {
			_ = os.RemoveAll(kd)
			_ = os.RemoveAll(wd)
			return
		}
		// 3. drivers, from the signatures the two generators actually emitted
		cs.stage = "drive"
		var err error
		if cs.WSig, err = parseInjector(filepath.Join(wd, "wire_gen.go"), "Init"); err != nil {
			cs.DriveErr = "wire_gen.go: " + err.Error()
			return
		}
		if cs.KSig, err = parseInjector(filepath.Join(kd, "kessoku_band.go"), "Init"); err != nil {
			cs.DriveErr = "kessoku_band.go: " + err.Error()
			return
		}
		wsrc, err := cs.Cfg.driverSrc(cs.Pkg, "w/"+cs.Pkg, cs.WSig)
		if err != nil {
			cs.DriveErr = "wire injector: " + err.Error()
			return
		}
		mustOK(os.WriteFile(filepath.Join(wd, "zz_driver.go"), []byte(wsrc), 0o644))
		ksrc, err := cs.Cfg.driverSrc(cs.Pkg, "k/"+cs.Pkg, cs.KSig)
		if err != nil {
			cs.DriveErr = "kessoku injector: " + err.Error()
			_ = os.RemoveAll(wd)
			return
		}
		mustOK(os.WriteFile(filepath.Join(kd, "zz_driver.go"), []byte(ksrc), 0o644))
		cs.stage = "compile"
	})
	// compile both trees; attribute diagnostics per package
	out, _ := bulkBuild(we.Dir, "build", "-buildvcs=false", "-gcflags=-e", "./w/...", "./k/...")
	werrs := splitBuildErrors(string(out), "corpus/w/")
	kerrs := splitBuildErrors(string(out), "corpus/k/")
	for _, cs := range cases {
		if cs.stage != "compile" {
			continue
		}
		cs.WCompile, cs.KCompile = werrs[cs.Pkg], kerrs[cs.Pkg]
		if cs.WCompile == "" && cs.KCompile == "" {
			cs.stage = "run"
		}
	}
}

// executeCases builds the runner over all cases that compiled and returns the records per package.
func executeCases(we *wireEnv, cases []*c13Case) (map[string][]symRec, error) {
	var main strings.Builder
	main.WriteString("package main\n\nimport (\n\t\"corpus/symrun\"\n\n")
	fails := map[string][]string{}
	n := 0
	for _, cs := range cases {
		if cs.stage != "run" {
			continue
		}
		n++
		fmt.Fprintf(&main, "\t_ \"corpus/w/%s\"\n\t_ \"corpus/k/%s\"\n", cs.Pkg, cs.Pkg)
		if f := cs.Cfg.fallible(); len(f) > 0 && cs.WSig.hasErr() {
			fails[cs.Pkg] = f
		}
	}
	main.WriteString(")\n\nfunc main() { symrun.Main() }\n")
	res := map[string][]symRec{}
	if n == 0 {
		return res, nil
	}
	rd := filepath.Join(we.Dir, "run")
	mustOK(os.MkdirAll(rd, 0o755))
	mustOK(os.WriteFile(filepath.Join(rd, "main.go"), []byte(main.String()), 0o644))
	fb, _ := json.Marshal(fails)
	mustOK(os.WriteFile(filepath.Join(rd, "fails.json"), fb, 0o644))
	bin := filepath.Join(rd, "runner")
	if out, err := bulkBuild(we.Dir, "build", "-buildvcs=false", "-o", bin, "./run"); err != nil {
		return nil, fmt.Errorf("building the runner: %v\n%s", err, out)
	}
	cmd := exec.Command(bin, filepath.Join(rd, "fails.json"))
	out, err := cmd.Output()
	if err != nil {
		return nil, fmt.Errorf("runner: %v", err)
	}
	dec := json.NewDecoder(strings.NewReader(string(out)))
	for dec.More() {
		var r symRec
		if err := dec.Decode(&r); err != nil {
			return nil, err
		}
		res[r.ID] = append(res[r.ID], r)
	}
	return res, nil
}

func recFor(rs []symRec, fail string) *symRec {
	for i := range rs {
		if rs[i].Fail == fail {
			return &rs[i]
		}
	}
	return nil
}

// multisetDiff returns the elements of a not in b and of b not in a.
func multisetDiff(a, b []string) (onlyA, onlyB []string) {
	cnt := map[string]int{}
	for _, x := range a {
		cnt[x]++
	}
	for _, x := range b {
		cnt[x]--
	}
	var keys []string
	for k := range cnt {
		keys = append(keys, k)
	}
	sort.Strings(keys)
	for _, k := range keys {
		for i := 0; i < cnt[k]; i++ {
			onlyA = append(onlyA, k)
		}
		for i := 0; i > cnt[k]; i-- {
			onlyB = append(onlyB, k)
		}
	}
	return
}

func callName(call string) string {
	if i := strings.IndexByte(call, '('); i >= 0 {
		return call[:i]
	}
	return call
}

func runC13(args []string) {
	tier := parseTier(args)
	rc := newRunCtx("C13", tier)
	rc.Level = "exploration"
	we := newWireEnv("c13", tier)
	defer we.Cleanup()
	rc.Notes = append(rc.Notes, fmt.Sprintf("setup (CLI, wire, scratch module, warm build cache) %.0fs", time.Since(rc.Start).Seconds()))
	cfgs, rule := wireUniverse(tier)
	exhaustive := true
	if st, _ := strconv.Atoi(os.Getenv("VERIF_WIRE_STRIDE")); st > 1 {
		// debugging aid: every st-th configuration only (the evidence then says exhaustive:false)
		var sub []*wCfg
		for i := 0; i < len(cfgs); i += st {
			sub = append(sub, cfgs[i])
		}
		cfgs, exhaustive = sub, false
	}
	cases := make([]*c13Case, len(cfgs))
	for i, c := range cfgs {
		cases[i] = &c13Case{Cfg: c}
	}
	t0 := time.Now()
	runWirePipeline(we, cases)
	t1 := time.Now()
	recs, err := executeCases(we, cases)
	rc.Notes = append(rc.Notes, fmt.Sprintf("%d configurations: tools+compile %.0fs, runner build+run %.0fs", len(cases), t1.Sub(t0).Seconds(), time.Since(t1).Seconds()))
	if err != nil {
		fmt.Printf("SETUP-FAILED: %v\n", err)
		we.Cleanup()
		os.Exit(2)
	}

	blocks := map[string]int{}
	wireRejected, unsupported, compared, faultRuns, errDropped := 0, 0, 0, 0, 0
	wireReasons, refusalReasons := map[string]int{}, map[string]int{}
	distinct := map[string]bool{}
	var samples []map[string]any
	for _, cs := range cases {
		c := cs.Cfg
		blocks[c.Block]++
		pre := c.Features()
		tsite := c.siteOf(c.target())
		switch cs.stage {
		case "wire":
			wireRejected++ // outside the domain of the property
			wireReasons[generalize(toolMessage(firstWireError(cs.WireOut)))]++
			continue
		case "migrate":
			if cs.MigExit != 0 {
				unsupported++ // C14's "fails cleanly" branch
				refusalReasons[generalize(toolMessage(cs.MigOut))]++
				continue
			}
			rc.Add(Finding{Kind: "migrate-exit-0-without-output", Site: tsite, Pre: pre, Detail: "kessoku migrate exited 0 on a configuration wire accepts but wrote no kessoku.go: " + toolMessage(cs.MigOut), Witness: c.Spec(), Replay: cs.replay(nil)})
			continue
		case "generate":
			msg := toolMessage(cs.GenOut)
			rc.Add(Finding{Kind: "migrated-config-rejected-by-generator", Site: generalize(msg), Pre: pre, Detail: "kessoku migrate exited 0 but the generator refuses the migrated file: " + msg, Witness: c.Spec(), Replay: cs.replay(map[string]any{"generator_output": cs.GenOut})})
			continue
		case "drive":
			rc.Add(Finding{Kind: "generated-injector-cannot-be-driven", Site: generalize(cs.DriveErr), Pre: pre, Detail: cs.DriveErr, Witness: c.Spec(), Replay: cs.replay(nil)})
			continue
		case "compile":
			if cs.WCompile != "" {
				// wire's own output does not compile with our stubs: a harness defect, never a kessoku finding
				rc.Add(Finding{Kind: "harness-wire-copy-does-not-compile", Site: normDiag(firstDiag(cs.WCompile)), Pre: pre, Detail: firstDiag(cs.WCompile), Witness: c.Spec(), Replay: cs.replay(map[string]any{"compiler": cs.WCompile})})
				continue
			}
			d := firstDiag(cs.KCompile)
			kind := "migrated-output-does-not-compile"
			if strings.Contains(d, "zz_driver.go") {
				kind = "harness-driver-does-not-compile"
			}
			rc.Add(Finding{Kind: kind, Site: generalize(normDiag(d)), Pre: pre, Detail: d, Witness: c.Spec(), Replay: cs.replay(map[string]any{"compiler": cs.KCompile})})
			continue
		}
		compared++
		distinct[generalize(cs.Kessoku)] = true
		w0, k0 := recFor(recs["w/"+cs.Pkg], ""), recFor(recs["k/"+cs.Pkg], "")
		if w0 == nil || k0 == nil {
			rc.Add(Finding{Kind: "harness-no-record", Site: tsite, Pre: pre, Detail: "the runner produced no record", Witness: c.Spec(), Replay: cs.replay(nil)})
			continue
		}
		if w0.Panic != "" || w0.Err != "" {
			rc.Add(Finding{Kind: "harness-reference-run-failed", Site: tsite, Pre: pre, Detail: "wire's injector failed in the fault-free run: " + w0.Panic + w0.Err, Witness: c.Spec(), Replay: cs.replay(nil)})
			continue
		}
		if len(samples) < 4 && compared%97 == int(rc.Seed%97)+1 {
			samples = append(samples, map[string]any{"config": c.Spec(), "wire_result_term": w0.Term, "kessoku_result_term": k0.Term, "wire_calls": w0.Log, "kessoku_calls": k0.Log, "kessoku.go": cs.Kessoku})
		}
		// The four clauses of the property are checked in an order that lets a root cause explain its
		// consequences: a parameter kessoku's injector takes instead of building the value (or a
		// constructor it calls instead of the configured one) cuts the sub-graph below that node, so
		// the calls missing from that sub-graph and the perturbed terms downstream are not reported
		// again as separate mechanisms. Whatever is NOT explained that way is reported on its own.
		if k0.Panic != "" || k0.Err != "" {
			rc.Add(Finding{Kind: "migrated-injector-fails", Site: tsite, Pre: pre, Detail: fmt.Sprintf("fault-free run: wire's injector returns %s, kessoku's fails: %s%s", w0.Term, k0.Panic, k0.Err), Witness: c.Spec(), Replay: cs.replay(map[string]any{"wire": w0, "kessoku": k0})})
			continue
		}
		// (3) parameter types: exactly those of wire's injector that some invoked provider uses
		var want, got []string
		for i, p := range cs.WSig.Params {
			if cs.WSig.Used[i] {
				want = append(want, p.Type)
			}
		}
		for _, p := range cs.KSig.Params {
			if p.Type != "context.Context" {
				got = append(got, p.Type)
			}
		}
		missing, extra := multisetDiff(want, got)
		onlyW, onlyK := multisetDiff(w0.Log, k0.Log)
		culprit := map[int]bool{}
		sigs := map[string]any{"wire_signature": cs.WSig, "kessoku_signature": cs.KSig, "wire": w0, "kessoku": k0}
		for _, t := range extra {
			site := "injector-argument"
			if o := c.ownerOfType(t); o >= 0 {
				site = c.siteOf(o)
				culprit[o] = true
			}
			rc.Add(Finding{Kind: "extra-parameter", Site: site, Pre: pre, Detail: fmt.Sprintf("kessoku's injector takes a parameter of type %s that wire's injector does not have: wire's uses %v, kessoku's takes %v", t, want, got), Witness: c.Spec(), Replay: cs.replay(sigs)})
		}
		// (1) same provider functions on the same inputs
		for _, call := range onlyK {
			name := callName(call)
			if o := c.ownerOfFunc(name); o >= 0 && name != c.funcName(o) {
				culprit[o] = true
				rc.Add(Finding{Kind: "wrong-constructor-invoked", Site: c.siteOf(o), Pre: pre, Detail: fmt.Sprintf("kessoku's injector calls %s, which is not part of the wire configuration; calls only in wire's injector %v, only in kessoku's %v", name, onlyW, onlyK), Witness: c.Spec(), Replay: cs.replay(sigs)})
			}
		}
		needed := c.neededBelow(culprit)
		explained := func(o int) bool {
			if o < 0 {
				return false
			}
			if culprit[o] || !needed[o] {
				return true
			}
			for a := range c.transDeps(o) {
				if culprit[a] {
					return true
				}
			}
			return false
		}
		var unexplained []string
		usite := ""
		for _, call := range append(append([]string{}, onlyW...), onlyK...) {
			if o := c.ownerOfFunc(callName(call)); !explained(o) {
				unexplained = append(unexplained, call)
				if usite == "" {
					usite = tsite
					if o >= 0 {
						usite = c.siteOf(o)
					}
				}
			}
		}
		if len(unexplained) > 0 {
			rc.Add(Finding{Kind: "different-provider-calls", Site: usite, Pre: pre, Detail: fmt.Sprintf("calls %v differ without a cause in the signature; only in wire's injector %v, only in kessoku's %v; results %s vs %s", unexplained, onlyW, onlyK, w0.Term, k0.Term), Witness: c.Spec(), Replay: cs.replay(sigs)})
		}
		for _, t := range missing {
			if o := c.ownerOfType(t); !explained(o) {
				site := "injector-argument"
				if o >= 0 {
					site = c.siteOf(o)
				}
				rc.Add(Finding{Kind: "missing-parameter", Site: site, Pre: pre, Detail: fmt.Sprintf("wire's injector uses its parameter of type %s, kessoku's injector has none: wire's uses %v, kessoku's takes %v", t, want, got), Witness: c.Spec(), Replay: cs.replay(sigs)})
			}
		}
		// (2) same result
		if w0.Term != k0.Term && len(culprit) == 0 && len(unexplained) == 0 {
			rc.Add(Finding{Kind: "different-result", Site: tsite, Pre: pre, Detail: fmt.Sprintf("same provider calls and parameters, but wire's injector returns %s and kessoku's %s", w0.Term, k0.Term), Witness: c.Spec(), Replay: cs.replay(sigs)})
		}
		if cs.WSig.hasErr() && !cs.KSig.hasErr() && len(c.fallible()) == 0 {
			errDropped++ // no provider can fail: nothing observable is lost (C10 covers the signature rule)
		}
		// (4) every single failing provider
		if !cs.WSig.hasErr() {
			continue
		}
		for _, f := range c.fallible() {
			wf, kf := recFor(recs["w/"+cs.Pkg], f), recFor(recs["k/"+cs.Pkg], f)
			if wf == nil || kf == nil {
				rc.Add(Finding{Kind: "harness-no-record", Site: tsite, Pre: pre, Detail: "no record for failing provider " + f, Witness: c.Spec() + " [fail:" + f + "]", Replay: cs.replay(nil)})
				continue
			}
			faultRuns++
			if wf.Err == "" {
				continue // wire's injector does not report an error (the provider is not invoked)
			}
			invoked := false
			for _, call := range k0.Log {
				invoked = invoked || callName(call) == f
			}
			if !invoked {
				continue // kessoku's injector never calls f: reported above as a call difference with its cause
			}
			if !wf.IsSentinel {
				rc.Add(Finding{Kind: "harness-reference-run-failed", Site: tsite, Pre: pre, Detail: "wire's injector returned a foreign error: " + wf.Err, Witness: c.Spec() + " [fail:" + f + "]", Replay: cs.replay(nil)})
				continue
			}
			site := tsite
			if o := c.ownerOfFunc(f); o >= 0 {
				site = c.siteOf(o)
			}
			switch {
			case kf.Panic != "":
				rc.Add(Finding{Kind: "migrated-injector-fails", Site: site, Pre: pre, Detail: fmt.Sprintf("provider %s fails: wire's injector returns its error, kessoku's panics: %s", f, kf.Panic), Witness: c.Spec() + " [fail:" + f + "]", Replay: cs.replay(map[string]any{"wire": wf, "kessoku": kf})})
			case kf.Err == "":
				rc.Add(Finding{Kind: "error-not-reported", Site: site, Pre: pre, Detail: fmt.Sprintf("provider %s fails: wire's injector returns %q, kessoku's returns no error (error result: %v, result %s, calls %v)", f, wf.Err, kf.HasErr, kf.Term, kf.Log), Witness: c.Spec() + " [fail:" + f + "]", Replay: cs.replay(map[string]any{"wire": wf, "kessoku": kf})})
			case !kf.IsSentinel:
				rc.Add(Finding{Kind: "substitute-error", Site: site, Pre: pre, Detail: fmt.Sprintf("provider %s fails: wire's injector returns %q, kessoku's returns %q", f, wf.Err, kf.Err), Witness: c.Spec() + " [fail:" + f + "]", Replay: cs.replay(map[string]any{"wire": wf, "kessoku": kf})})
			}
		}
	}
	if len(samples) == 0 {
		for _, cs := range cases {
			if cs.stage == "run" {
				samples = append(samples, map[string]any{"config": cs.Cfg.Spec(), "kessoku.go": cs.Kessoku})
				break
			}
		}
	}
	rc.Coverage = map[string]any{
		"evaluations":                      len(cases),
		"distinct_nontrivial":              len(distinct),
		"rule":                             rule + " Pipeline per configuration (real tools): wire gen -> wire_gen.go; in a copy kessoku migrate -> kessoku.go, wire files removed, kessoku kessoku.go -> kessoku_band.go; both copies compiled and run in one binary with symbolic arguments, fault-free and once per fallible provider. distinct = distinct migrated texts modulo indices among the compared configurations",
		"samples":                          samples,
		"exhaustive":                       exhaustive,
		"configs_by_block":                 blocks,
		"rejected_by_wire_outside_domain":  wireRejected,
		"wire_rejection_reasons":           wireReasons,
		"unsupported_migrate_refused":      unsupported,
		"migrate_refusal_reasons":          refusalReasons,
		"compared_by_execution":            compared,
		"single_provider_failure_runs":     faultRuns,
		"error_result_dropped_no_fallible": errDropped,
		"tree_hash":                        we.env.Hash,
	}
	rc.Assume = []string{
		"google/wire v0.7.0 is the reference; configurations it rejects are outside the domain",
		"types are per-node named structs/interfaces of the package itself (external packages are C14's subject); no context.Context, cleanup functions or variadic providers",
		"a migrate refusal (exit != 0) of a wire-accepted configuration is counted as unsupported, not as a violation",
		"kessoku's injector lacking wire's error result when no provider can fail is counted (error_result_dropped_no_fallible), not reported",
		"axes are crossed as stated in the rule, not all-with-all",
	}
	tcl := time.Now()
	we.Cleanup()
	rc.Notes = append(rc.Notes, fmt.Sprintf("removing the scratch module %.0fs", time.Since(tcl).Seconds()))
	rc.Finish()
}

// firstWireError extracts the first "wire: ..." diagnostic line.
func firstWireError(out string) string {
	for _, l := range strings.Split(out, "\n") {
		if strings.HasPrefix(l, "wire: ") && !strings.Contains(l, "generate failed") && !strings.Contains(l, "at least one generate failure") {
			return strings.TrimPrefix(l, "wire: ")
		}
	}
	return out
}
