package main

// TEMPORARY development dispatch (removed before hand-over): main.go is edited by someone else.

import (
	"fmt"
	"os"
)

func init() {
	if len(os.Args) >= 3 && os.Args[1] == "run" && os.Args[2] == "C13" {
		runC13(os.Args[3:])
	}
	if len(os.Args) >= 3 && os.Args[1] == "run" && os.Args[2] == "C14" {
		runC14(os.Args[3:])
	}
	if len(os.Args) >= 3 && os.Args[1] == "wireuniverse" {
		cfgs, _ := wireUniverse(os.Args[2])
		blocks := map[string]int{}
		for _, c := range cfgs {
			blocks[c.Block]++
			if len(os.Args) > 3 {
				fmt.Println(c.Block, c.Spec())
			}
		}
		fmt.Println(len(cfgs), blocks)
		os.Exit(0)
	}
}
